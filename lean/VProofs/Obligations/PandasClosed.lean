/-
  Closure of the invariant `Good` under the 14 transformers of the pandas model (`OutputsGood`), which
  removes the last hypothesis of `pandas_WF`.

  Every transformer output is a column of *produced* cells (`OutCell`: built by the model's smart
  constructors, or a missing cell carried over) under one of nine dtypes; `good_of_outCol` shows such a
  column satisfies `Good` for every oracle, and one lemma per transformer shows its output is such a column.
-/
import VProofs.Obligations.PandasWF
namespace V.Pd
open V V.Gen

structure OutCol (c : Column) : Prop where
  cells : ∀ x ∈ c.cells, OutCell x
  notString : c.dtype.isStringNonObject = false
  obj : c.dtype = .object → ∀ x ∈ c.cells, x.null = false → x.inBoolSet ≠ .ok true
  nonobj : c.dtype ≠ .object → objectish c.dtype = false ∧
    ∀ x ∈ c.cells, x.null = false → ∀ a ∈ objValued, objPred a x = false
  dtypePay : DtypePay c

theorem objValued_sub : ∀ a ∈ objValued, a ∈ objChildren ∧ a ≠ .Boolean := by decide

theorem acceptsObj_of_contains (d : Ty) (hd : d ≠ .Boolean) (c : Column) (h : containsB d c = true) : acceptsObj d c := by
  cases d <;> first | exact absurd rfl hd | exact h

/-- a column of produced cells is not a String column -/
theorem outCol_not_string {c : Column} (h : OutCol c) : containsB .String c = false := by
  cases hs : containsB .String c with
  | false => rfl
  | true =>
    have hv : HasValue c := (notEmpty_handle_true (f := _) (by simpa [containsB, stringContains, notSparseB] using hs)).1
    obtain ⟨x, hx, hn⟩ := hv
    have hdc : DtypeCells c := fun hh => by rw [h.notString] at hh; cases hh
    have := acceptsObj_pred .String (by decide) c hdc (acceptsObj_of_contains .String (by decide) c hs) x hx hn
    simp only [objPred] at this
    rw [(h.cells x hx).notStr hn] at this; cases this

theorem hasValue_of_contains_objValued (a : Ty) (ha : a ∈ objValued) (c : Column) (h : containsB a c = true) : HasValue c := by
  simp only [objValued, List.mem_cons, List.not_mem_nil, or_false] at ha
  rcases ha with rfl | rfl | rfl | rfl | rfl | rfl | rfl | rfl
  · exact (handle_notEmpty_true (by simpa [containsB, dateContains] using h)).1
  · exact (handle_notEmpty_true (by simpa [containsB, timeContains] using h)).1
  · exact (handle_notEmpty_true (by simpa [containsB, urlContains] using h)).1
  · exact (notEmpty_handle_true (by simpa [containsB, uuidContains] using h)).1
  · exact (notEmpty_handle_true (by simpa [containsB, emailContains] using h)).1
  · exact (notEmpty_handle_true (by simpa [containsB, pathContains] using h)).1
  · exact (notEmpty_handle_true (by simpa [containsB, geometryContains] using h)).1
  · exact (notEmpty_handle_true (by simpa [containsB, ipContains] using h)).1

theorem object_objectish (c : Column) (h : objectContains c = true) : objectish c.dtype = true := by
  simp only [objectContains, notSparseB] at h
  have ⟨_, h2⟩ := handle_notEmpty_true h
  have key : ∀ d : Column, d.dtype = c.dtype →
      (if d.dtype.isObject = true then true else d.dtype.isStringNonObject && !d.dtype.isCategorical) = true →
      objectish c.dtype = true := by
    intro d hd hh
    rw [hd] at hh
    simp only [objectish]
    by_cases ho : c.dtype.isObject = true
    · simp [ho]
    · simp only [ho, Bool.false_eq_true, if_false] at hh
      simp [hh]
  rcases h2 with ⟨_, h3⟩ | ⟨_, h3⟩
  · exact key c.dropna (dropna_dtype c) h3
  · exact key c rfl h3

/-- **a column of produced cells satisfies `Good`, for every oracle** -/
theorem good_of_outCol (o : ColOracle) (c : Column) (h : OutCol c) : Good o c where
  cellwf := fun x hx => (h.cells x hx).wf
  paywf := fun x hx => (h.cells x hx).pay
  strNotNull := by
    intro x hx hs
    rw [(h.cells x hx).str] at hs; cases hs
  dtypeCells := fun hh => by rw [h.notString] at hh; cases hh
  headExcl := fun x hx hn => (h.cells x hx).head hn
  strHyp := by
    intro x hx f hf
    rw [(h.cells x hx).str] at hf; cases hf
  dtypePay := h.dtypePay
  dtExcl := fun hs => by rw [outCol_not_string h] at hs; cases hs
  dtLands := fun hs => by rw [outCol_not_string h] at hs; cases hs
  dtOut := fun hs => by rw [outCol_not_string h] at hs; cases hs
  excl16 := by
    intro child hc
    have hdc : DtypeCells c := fun hh => by rw [h.notString] at hh; cases hh
    by_cases hf : child = .File
    · subst hf
      exfalso
      have hc' : notEmptyB (handleNullsB (fun c => c.cells.all (fun x => x.isPath && x.pathExists))) c = true := hc
      obtain ⟨x, hx, hn⟩ := (notEmpty_handle_true hc').1
      have := and_left_of_all (all_of_notEmpty_handle hc' x hx hn)
      rw [(h.cells x hx).notPath hn] at this; cases this
    · by_cases hv : child ∈ objValued
      · by_cases hd : c.dtype = .object
        · have : Excl16 child c = !objectish c.dtype := by
            simp only [objValued, List.mem_cons, List.not_mem_nil, or_false] at hv
            rcases hv with rfl | rfl | rfl | rfl | rfl | rfl | rfl | rfl <;> rfl
          rw [this, hd]; rfl
        · exfalso
          obtain ⟨x, hx, hn⟩ := hasValue_of_contains_objValued child hv c hc
          have ⟨hm, hb⟩ := objValued_sub child hv
          have h1 := acceptsObj_pred child hm c hdc (acceptsObj_of_contains child hb c hc) x hx hn
          rw [(h.nonobj hd).2 x hx hn child hv] at h1; cases h1
      · revert hf hv
        cases child <;> simp [Excl16, objValued]
  noRaise := by
    intro src dst g t hg ht hsrc hacc
    have hdc : DtypeCells c := fun hh => by rw [h.notString] at hh; cases hh
    have hns := outCol_not_string h
    unfold guard at hg
    unfold xform at ht
    split at hg <;> (try cases hg) <;> simp only at ht <;> cases ht
    · -- Object → Boolean
      exfalso
      have hob := object_objectish c hsrc
      by_cases hd : c.dtype = .object
      · obtain ⟨x, hx, hn⟩ := (handle_notEmpty_true (f := _) (by simpa [containsB, objectContains, notSparseB] using hsrc)).1
        have := acceptsObj_pred .Boolean (by decide) c hdc hacc x hx hn
        simp only [objPred, beq_iff_eq] at this
        exact h.obj hd x hx hn this
      · rw [(h.nonobj hd).1] at hob; cases hob
    all_goals first
      | (rw [hns] at hsrc; cases hsrc)
      | exact ⟨_, rfl⟩
      | skip
    -- DateTime → Date
    simp only [datetimeToDate]
    split
    · rename_i hany
      exfalso
      obtain ⟨x, hx, hb⟩ := List.any_eq_true.mp hany
      simp only [Bool.and_eq_true, Bool.not_eq_true'] at hb
      obtain ⟨hn, hb⟩ := hb
      cases hp : x.pay with
      | ts d ns tz =>
        have := (h.cells x hx).ts hn d ns tz hp
        rw [hp] at hb
        simp only [Bool.or_eq_true, decide_eq_true_eq] at hb
        omega
      | _ => rw [hp] at hb; cases hb
    · exact ⟨_, rfl⟩

/-! ### produced cells -/

/-- a cell satisfying at most one of the ten cell properties -/
theorem headExcl_of_unique (x : Cell) (t : Ty) (h : ∀ a ∈ objChildren, objPred a x = true → a = t) : HeadExcl x := by
  intro a ha b hb hne hab
  exact hne ((h a ha hab.1).trans (h b hb hab.2).symm)

theorem outCell_missing (k : NaKind) : OutCell (Cell.missing k) where
  str := rfl
  wf := ⟨by intro h; cases h⟩
  pay := ⟨by intro re im h; cases k <;> cases h⟩
  notPath := by intro h; cases h
  notStr := by intro h; cases h
  head := by intro h; cases h
  ts := by intro h; cases h

theorem outCell_ofBool (b : Bool) : OutCell (Cell.ofBool b) where
  str := rfl
  wf := ⟨by intro h; cases h⟩
  pay := ⟨by intro re im h; cases h⟩
  notPath := fun _ => rfl
  notStr := fun _ => rfl
  head := fun _ => headExcl_of_unique _ .Boolean (by
    intro a ha
    simp only [objChildren, List.mem_cons, List.not_mem_nil, or_false] at ha
    rcases ha with rfl | rfl | rfl | rfl | rfl | rfl | rfl | rfl | rfl | rfl <;> simp [objPred, Cell.ofBool, Cell.blank])
  ts := by intro _ d ns tz h; cases h

theorem outCell_ofInt (z : Int) : OutCell (Cell.ofInt z) where
  str := rfl
  wf := ⟨by intro h; cases h⟩
  pay := ⟨by intro re im h; cases h⟩
  notPath := fun _ => rfl
  notStr := fun _ => rfl
  head := fun _ => headExcl_of_unique _ .Boolean (by
    intro a ha
    simp only [objChildren, List.mem_cons, List.not_mem_nil, or_false] at ha
    rcases ha with rfl | rfl | rfl | rfl | rfl | rfl | rfl | rfl | rfl | rfl <;> simp [objPred, Cell.ofInt, Cell.blank])
  ts := by intro _ d ns tz h; cases h

theorem outCell_ofFloat (v : FloatV) : OutCell (Cell.ofFloat v) := by
  by_cases hv : v.isNan = true
  · have : Cell.ofFloat v = Cell.missing .nan := by simp [Cell.ofFloat, hv]
    rw [this]; exact outCell_missing _
  · have e : Cell.ofFloat v = { Cell.blank with
        cls := "float", inBoolSet := .ok (v == .fin 0 0 || v == .fin 1 0),
        truth := .ok (!v.isZero), pay := .float v } := by simp [Cell.ofFloat, hv]
    rw [e]
    exact {
      str := rfl
      wf := ⟨by intro h; cases h⟩
      pay := ⟨by intro re im h; cases h⟩
      notPath := fun _ => rfl
      notStr := fun _ => rfl
      head := fun _ => headExcl_of_unique _ .Boolean (by
        intro a ha
        simp only [objChildren, List.mem_cons, List.not_mem_nil, or_false] at ha
        rcases ha with rfl | rfl | rfl | rfl | rfl | rfl | rfl | rfl | rfl | rfl <;> simp [objPred, Cell.blank])
      ts := by intro _ d ns tz h; cases h }

theorem outCell_ofComplex (re im : FloatV) : OutCell (Cell.ofComplex re im) where
  str := rfl
  wf := ⟨by intro h; cases h⟩
  pay := ⟨by
    intro re' im' h
    simp only [Cell.ofComplex, Payload.complex.injEq] at h
    obtain ⟨rfl, rfl⟩ := h
    simp [Cell.ofComplex]⟩
  notPath := fun _ => rfl
  notStr := fun _ => rfl
  head := fun _ => headExcl_of_unique _ .Boolean (by
    intro a ha
    simp only [objChildren, List.mem_cons, List.not_mem_nil, or_false] at ha
    rcases ha with rfl | rfl | rfl | rfl | rfl | rfl | rfl | rfl | rfl | rfl <;> simp [objPred, Cell.ofComplex, Cell.blank])
  ts := by intro _ d ns tz h; cases h

theorem outCell_ofTimestamp (d : Int) (ns : Nat) (tz : Bool) (hd : 1 ≤ d ∧ d ≤ 3652059) : OutCell (Cell.ofTimestamp d ns tz) where
  str := rfl
  wf := ⟨by intro h; cases h⟩
  pay := ⟨by intro re im h; cases h⟩
  notPath := fun _ => rfl
  notStr := fun _ => rfl
  head := fun _ => headExcl_of_unique _ .Boolean (by
    intro a ha
    simp only [objChildren, List.mem_cons, List.not_mem_nil, or_false] at ha
    rcases ha with rfl | rfl | rfl | rfl | rfl | rfl | rfl | rfl | rfl | rfl <;> simp [objPred, Cell.ofTimestamp, Cell.blank] <;> decide)
  ts := by
    intro _ d' ns' tz' h
    simp only [Cell.ofTimestamp, Payload.ts.injEq] at h
    obtain ⟨rfl, _, _⟩ := h
    exact hd

theorem outCell_ofDate (d : Int) : OutCell (Cell.ofDate d) where
  str := rfl
  wf := ⟨by intro h; cases h⟩
  pay := ⟨by intro re im h; cases h⟩
  notPath := fun _ => rfl
  notStr := fun _ => rfl
  head := fun _ => headExcl_of_unique _ .Date (by
    intro a ha
    simp only [objChildren, List.mem_cons, List.not_mem_nil, or_false] at ha
    rcases ha with rfl | rfl | rfl | rfl | rfl | rfl | rfl | rfl | rfl | rfl <;> simp [objPred, Cell.ofDate, Cell.blank] <;> decide)
  ts := by intro _ d ns tz h; cases h

theorem outCell_geomCell (r : String) : OutCell (geomCell r) ∧ (geomCell r).null = false ∧ (geomCell r).inBoolSet ≠ .ok true where
  left := {
    str := rfl
    wf := ⟨by intro h; cases h⟩
    pay := ⟨by intro re im h; cases h⟩
    notPath := fun _ => rfl
    notStr := fun _ => rfl
    head := fun _ => headExcl_of_unique _ .Geometry (by
      intro a ha
      simp only [objChildren, List.mem_cons, List.not_mem_nil, or_false] at ha
      rcases ha with rfl | rfl | rfl | rfl | rfl | rfl | rfl | rfl | rfl | rfl <;>
        simp [objPred, geomCell, Cell.ofObj, Cell.blank] <;> decide)
    ts := by intro _ d ns tz h; cases h }
  right := ⟨rfl, by simp [geomCell, Cell.ofObj, Cell.blank]⟩

theorem outCell_uuidCell (r : String) : OutCell (uuidCell r) ∧ (uuidCell r).null = false ∧ (uuidCell r).inBoolSet ≠ .ok true where
  left := {
    str := rfl
    wf := ⟨by intro h; cases h⟩
    pay := ⟨by intro re im h; cases h⟩
    notPath := fun _ => rfl
    notStr := fun _ => rfl
    head := fun _ => headExcl_of_unique _ .UUID (by
      intro a ha
      simp only [objChildren, List.mem_cons, List.not_mem_nil, or_false] at ha
      rcases ha with rfl | rfl | rfl | rfl | rfl | rfl | rfl | rfl | rfl | rfl <;>
        simp [objPred, uuidCell, Cell.ofObj, Cell.blank] <;> decide)
    ts := by intro _ d ns tz h; cases h }
  right := ⟨rfl, by simp [uuidCell, Cell.ofObj, Cell.blank]⟩

theorem outCell_emailCell (r : String) : OutCell (emailCell r) ∧ (emailCell r).null = false ∧ (emailCell r).inBoolSet ≠ .ok true where
  left := {
    str := rfl
    wf := ⟨by intro h; cases h⟩
    pay := ⟨by intro re im h; cases h⟩
    notPath := fun _ => rfl
    notStr := fun _ => rfl
    head := fun _ => headExcl_of_unique _ .EmailAddress (by
      intro a ha
      simp only [objChildren, List.mem_cons, List.not_mem_nil, or_false] at ha
      rcases ha with rfl | rfl | rfl | rfl | rfl | rfl | rfl | rfl | rfl | rfl <;>
        simp [objPred, emailCell, Cell.ofObj, Cell.blank] <;> decide)
    ts := by intro _ d ns tz h; cases h }
  right := ⟨rfl, by simp [emailCell, Cell.ofObj, Cell.blank]⟩

theorem outCell_urlCell (n sc : Bool) (r : String) : OutCell (urlCell n sc r) ∧ (urlCell n sc r).null = false ∧ (urlCell n sc r).inBoolSet ≠ .ok true where
  left := {
    str := rfl
    wf := ⟨by intro h; cases h⟩
    pay := ⟨by intro re im h; cases h⟩
    notPath := fun _ => rfl
    notStr := fun _ => rfl
    head := fun _ => headExcl_of_unique _ .URL (by
      intro a ha
      simp only [objChildren, List.mem_cons, List.not_mem_nil, or_false] at ha
      rcases ha with rfl | rfl | rfl | rfl | rfl | rfl | rfl | rfl | rfl | rfl <;>
        simp [objPred, urlCell, Cell.ofObj, Cell.blank] <;> decide)
    ts := by intro _ d ns tz h; cases h }
  right := ⟨rfl, by simp [urlCell, Cell.ofObj, Cell.blank]⟩

theorem outCell_purePathCell (cls : String) (hc : cls = "PureWindowsPath" ∨ cls = "PurePosixPath") (b : Bool) (r : String) : OutCell (purePathCell cls b r) ∧ (purePathCell cls b r).null = false ∧ (purePathCell cls b r).inBoolSet ≠ .ok true where
  left := {
    str := rfl
    wf := ⟨by intro h; cases h⟩
    pay := ⟨by intro re im h; cases h⟩
    notPath := fun _ => rfl
    notStr := fun _ => rfl
    head := fun _ => headExcl_of_unique _ .Path (by
      intro a ha
      simp only [objChildren, List.mem_cons, List.not_mem_nil, or_false] at ha
      rcases hc with rfl | rfl <;>
      rcases ha with rfl | rfl | rfl | rfl | rfl | rfl | rfl | rfl | rfl | rfl <;>
        simp [objPred, purePathCell, Cell.ofObj, Cell.blank] <;> decide)
    ts := by intro _ d ns tz h; cases h }
  right := ⟨rfl, by simp [purePathCell, Cell.ofObj, Cell.blank]⟩

theorem outCell_ipCell (cls : String) (hc : cls ≠ "date" ∧ cls ≠ "time") (r : String) : OutCell (ipCell cls r) ∧ (ipCell cls r).null = false ∧ (ipCell cls r).inBoolSet ≠ .ok true where
  left := {
    str := rfl
    wf := ⟨by intro h; cases h⟩
    pay := ⟨by intro re im h; cases h⟩
    notPath := fun _ => rfl
    notStr := fun _ => rfl
    head := fun _ => headExcl_of_unique _ .IPAddress (by
      intro a ha
      simp only [objChildren, List.mem_cons, List.not_mem_nil, or_false] at ha
      rcases ha with rfl | rfl | rfl | rfl | rfl | rfl | rfl | rfl | rfl | rfl <;>
        simp [objPred, ipCell, Cell.ofObj, Cell.blank, hc.1, hc.2] <;> decide)
    ts := by intro _ d ns tz h; cases h }
  right := ⟨rfl, by simp [ipCell, Cell.ofObj, Cell.blank]⟩

/-! ### produced columns -/

/-- cells of numeric / temporal outputs -/
inductive NumCell : Cell → Prop
  | missing (k : NaKind) : NumCell (Cell.missing k)
  | bool (b : Bool) : NumCell (Cell.ofBool b)
  | int (z : Int) : NumCell (Cell.ofInt z)
  | float (v : FloatV) : NumCell (Cell.ofFloat v)
  | complex (re im : FloatV) : NumCell (Cell.ofComplex re im)
  | ts (d : Int) (ns : Nat) (tz : Bool) (h : 1 ≤ d ∧ d ≤ 3652059) : NumCell (Cell.ofTimestamp d ns tz)
  | other (x : Cell) (h : TsCell x) : NumCell x

theorem numCell_out {x : Cell} (h : NumCell x) :
    OutCell x ∧ (x.null = false → ∀ a ∈ objValued, objPred a x = false) := by
  cases h with
  | missing k => exact ⟨outCell_missing k, by intro h; cases h⟩
  | bool b => exact ⟨outCell_ofBool b, by
    intro _ a ha
    simp only [objValued, List.mem_cons, List.not_mem_nil, or_false] at ha
    rcases ha with rfl | rfl | rfl | rfl | rfl | rfl | rfl | rfl <;> simp [objPred, Cell.ofBool, Cell.blank] <;> decide⟩
  | int z => exact ⟨outCell_ofInt z, by
    intro _ a ha
    simp only [objValued, List.mem_cons, List.not_mem_nil, or_false] at ha
    rcases ha with rfl | rfl | rfl | rfl | rfl | rfl | rfl | rfl <;> simp [objPred, Cell.ofInt, Cell.blank] <;> decide⟩
  | float v =>
    refine ⟨outCell_ofFloat v, ?_⟩
    by_cases hv : v.isNan = true
    · have : Cell.ofFloat v = Cell.missing .nan := by simp [Cell.ofFloat, hv]
      rw [this]; intro h; cases h
    · intro _ a ha
      simp only [objValued, List.mem_cons, List.not_mem_nil, or_false] at ha
      rcases ha with rfl | rfl | rfl | rfl | rfl | rfl | rfl | rfl <;> simp [objPred, Cell.ofFloat, hv, Cell.blank]
  | complex re im => exact ⟨outCell_ofComplex re im, by
    intro _ a ha
    simp only [objValued, List.mem_cons, List.not_mem_nil, or_false] at ha
    rcases ha with rfl | rfl | rfl | rfl | rfl | rfl | rfl | rfl <;> simp [objPred, Cell.ofComplex, Cell.blank] <;> decide⟩
  | other x h => exact ⟨h.out, h.plain⟩
  | ts d ns tz h => exact ⟨outCell_ofTimestamp d ns tz h, by
    intro _ a ha
    simp only [objValued, List.mem_cons, List.not_mem_nil, or_false] at ha
    rcases ha with rfl | rfl | rfl | rfl | rfl | rfl | rfl | rfl <;> simp [objPred, Cell.ofTimestamp, Cell.blank] <;> decide⟩

def numDtypes : List PdFam := [.bool, .boolean, .complex, .float, .int, .Int, .datetime, .datetimetz]

theorem outCol_num (c : Column) (f : PdFam) (hd : c.dtype = .fam f) (hf : f ∈ numDtypes)
    (hc : ∀ x ∈ c.cells, NumCell x) (hp : DtypePay c) : OutCol c where
  cells := fun x hx => (numCell_out (hc x hx)).1
  notString := by
    rw [hd]; revert hf; cases f <;> decide
  obj := by intro h; rw [hd] at h; cases h
  nonobj := by
    intro _
    refine ⟨?_, fun x hx hn => (numCell_out (hc x hx)).2 hn⟩
    rw [hd]; revert hf; cases f <;> decide
  dtypePay := hp

/-- cells of object-valued outputs -/
inductive ObjCell : Cell → Prop
  | kept (x : Cell) (hn : x.null = true) (hs : x.str = none) (wf : CellWF x) (pw : PayWF x) : ObjCell x
  | date (d : Int) : ObjCell (Cell.ofDate d)
  | geom (r : String) : ObjCell (geomCell r)
  | uuid (r : String) : ObjCell (uuidCell r)
  | email (r : String) : ObjCell (emailCell r)
  | url (n sc : Bool) (r : String) : ObjCell (urlCell n sc r)
  | path (cls : String) (hc : cls = "PureWindowsPath" ∨ cls = "PurePosixPath") (b : Bool) (r : String) : ObjCell (purePathCell cls b r)
  | ip (cls : String) (hc : cls ≠ "date" ∧ cls ≠ "time") (r : String) : ObjCell (ipCell cls r)

theorem objCell_out {x : Cell} (h : ObjCell x) : OutCell x ∧ (x.null = false → x.inBoolSet ≠ .ok true) := by
  cases h with
  | kept x hn hs wf pw =>
    have no : ∀ {P : Prop}, x.null = false → P := by intro P h; rw [hn] at h; cases h
    exact ⟨⟨hs, wf, pw, no, no, no, no⟩, no⟩
  | date d => exact ⟨outCell_ofDate d, by intro _; simp [Cell.ofDate, Cell.blank]⟩
  | geom r => exact ⟨(outCell_geomCell r).1, fun _ => (outCell_geomCell r).2.2⟩
  | uuid r => exact ⟨(outCell_uuidCell r).1, fun _ => (outCell_uuidCell r).2.2⟩
  | email r => exact ⟨(outCell_emailCell r).1, fun _ => (outCell_emailCell r).2.2⟩
  | url n sc r => exact ⟨(outCell_urlCell n sc r).1, fun _ => (outCell_urlCell n sc r).2.2⟩
  | path cls hc b r => exact ⟨(outCell_purePathCell cls hc b r).1, fun _ => (outCell_purePathCell cls hc b r).2.2⟩
  | ip cls hc r => exact ⟨(outCell_ipCell cls hc r).1, fun _ => (outCell_ipCell cls hc r).2.2⟩

theorem outCol_obj (c : Column) (hd : c.dtype = .object) (hc : ∀ x ∈ c.cells, ObjCell x) : OutCol c where
  cells := fun x hx => (objCell_out (hc x hx)).1
  notString := by rw [hd]; rfl
  obj := fun _ x hx hn => (objCell_out (hc x hx)).2 hn
  nonobj := fun h => absurd hd h
  dtypePay := by
    constructor
    · rw [hd]; intro h; cases h
    · rw [hd]; intro h; cases h

/-! ### one lemma per transformer -/

theorem dtypePay_trivial (c : Column) (h1 : c.dtype.isFloat = false) (h2 : c.dtype.isDatetime = false) : DtypePay c := by
  constructor
  · intro h; rw [h1] at h; cases h
  · intro h; rw [h2] at h; cases h

theorem out_objectToBoolean (c c' : Column) (h : objectToBoolean c = .ok c') : OutCol c' := by
  obtain ⟨hd, _, hcells⟩ := objectToBoolean_cells c c' h
  have hc : ∀ y ∈ c'.cells, NumCell y := by
    intro y hy
    rw [hcells] at hy
    obtain ⟨x, _, hgx⟩ := List.mem_map.mp ((mem_oks _ y).mp hy)
    by_cases hn : x.null = true
    · simp only [hn, if_true, Outcome.ok.injEq] at hgx; subst hgx; exact .missing _
    · simp only [hn, Bool.false_eq_true, if_false] at hgx
      cases ht : x.truth with
      | ok b => rw [ht] at hgx; simp only [Outcome.ok.injEq] at hgx; subst hgx; exact .bool b
      | raises cls => rw [ht] at hgx; cases hgx
  by_cases hn : c.hasnans = true
  · simp only [hn, if_true] at hd
    exact outCol_num c' .boolean hd (by decide) hc (dtypePay_trivial c' (by rw [hd]; rfl) (by rw [hd]; rfl))
  · simp only [hn, Bool.false_eq_true, if_false] at hd
    exact outCol_num c' .bool hd (by decide) hc (dtypePay_trivial c' (by rw [hd]; rfl) (by rw [hd]; rfl))

theorem out_stringToBoolean (c c' : Column) (h : stringToBoolean c = .ok c') : OutCol c' :=
  out_objectToBoolean _ c' h

theorem out_stringToComplex (c c' : Column) (h : stringToComplex c = .ok c') : OutCol c' := by
  simp only [stringToComplex] at h
  split at h
  · cases h
  · cases h
    refine outCol_num _ .complex rfl (by decide) ?_ (dtypePay_trivial _ rfl rfl)
    intro y hy
    simp only [List.mem_map] at hy
    obtain ⟨p, _, rfl⟩ := hy
    split <;> exact .complex _ _

theorem ofFloat_pay (v : FloatV) (h : (Cell.ofFloat v).null = false) : (Cell.ofFloat v).pay = .float v := by
  by_cases hv : v.isNan = true
  · simp [Cell.ofFloat, hv, Cell.missing] at h
  · simp [Cell.ofFloat, hv]

theorem out_stringToFloat (c c' : Column) (h : stringToFloat c = .ok c') : OutCol c' := by
  simp only [stringToFloat] at h
  split at h
  · cases h
  · cases h
    refine outCol_num _ .float rfl (by decide) ?_ ?_
    · intro y hy
      simp only [List.mem_map] at hy
      obtain ⟨v, _, rfl⟩ := hy
      exact .float v
    · constructor
      · intro _ y hy hn
        simp only [List.mem_map] at hy
        obtain ⟨v, _, rfl⟩ := hy
        exact ⟨v, ofFloat_pay v hn⟩
      · intro h; cases h

theorem out_complexToFloat (c c' : Column) (h : complexToFloat c = .ok c') : OutCol c' := by
  simp only [complexToFloat, Except.ok.injEq] at h
  subst h
  have hc : ∀ y ∈ c.cells.map (fun x => match x.pay with | .complex re _ => Cell.ofFloat re | _ => Cell.missing .nan),
      NumCell y ∧ (y.null = false → ∃ v, y.pay = .float v) := by
    intro y hy
    simp only [List.mem_map] at hy
    obtain ⟨x, _, rfl⟩ := hy
    split
    · exact ⟨.float _, fun hn => ⟨_, ofFloat_pay _ hn⟩⟩
    · exact ⟨.missing _, by intro hn; cases hn⟩
  refine outCol_num _ .float rfl (by decide) (fun y hy => (hc y hy).1) ?_
  constructor
  · intro _ y hy hn; exact (hc y hy).2 hn
  · intro h; cases h

theorem out_floatToInteger (c c' : Column) (hp : DtypePay c) (hsrc : floatContains c = true)
    (h : floatToInteger c = .ok c') : OutCol c' := by
  have hf : c.dtype.isFloat = true := ((handle_dtype (fun d => d.isFloat) c).mp hsrc).2
  simp only [floatToInteger, Except.ok.injEq] at h
  subst h
  have hc : ∀ y ∈ c.cells.map (fun x => if x.null then Cell.missing .pdNA
      else match x.pay with | .float v => Cell.ofInt v.toInt | _ => x), NumCell y := by
    intro y hy
    simp only [List.mem_map] at hy
    obtain ⟨x, hx, rfl⟩ := hy
    by_cases hn : x.null = true
    · simp only [hn, if_true]; exact .missing _
    · simp only [hn, Bool.false_eq_true, if_false]
      obtain ⟨v, hv⟩ := hp.float hf x hx (by simpa using hn)
      rw [hv]; exact .int _
  by_cases hn : c.hasnans = true
  · simp only [hn, if_true]
    exact outCol_num _ .Int rfl (by decide) hc (dtypePay_trivial _ rfl rfl)
  · simp only [hn, Bool.false_eq_true, if_false]
    exact outCol_num _ .int rfl (by decide) hc (dtypePay_trivial _ rfl rfl)

theorem out_datetimeToDate (c c' : Column) (hp : DtypePay c) (hsrc : datetimeContains c = true)
    (h : datetimeToDate c = .ok c') : OutCol c' := by
  have hf : c.dtype.isDatetime = true := ((handle_dtype (fun d => d.isDatetime) c).mp hsrc).2
  simp only [datetimeToDate] at h
  split at h
  · cases h
  · cases h
    refine outCol_obj _ rfl ?_
    intro y hy
    simp only [List.mem_map] at hy
    obtain ⟨x, hx, rfl⟩ := hy
    by_cases hn : x.null = true
    · simp only [hn, if_true]
      exact .kept _ rfl rfl (outCell_missing _).wf (outCell_missing _).pay
    · simp only [hn, Bool.false_eq_true, if_false]
      obtain ⟨d, ns, tz, hv⟩ := hp.datetime hf x hx (by simpa using hn)
      rw [hv]; exact .date _

theorem out_stringToDatetime (o : ColOracle) (c c' : Column) (hdo : DtOut o c)
    (h : stringToDatetime o c = .ok c') : OutCol c' := by
  simp only [stringToDatetime] at h
  split at h
  · cases h
  · rename_i r tz hq
    cases h
    have hr := hdo r tz hq
    have hc : ∀ y ∈ r, NumCell y := fun y hy => .other y (hr y hy)
    have hp : ∀ y ∈ r, y.null = false → ∃ d ns tz, y.pay = .ts d ns tz := fun y hy hn => (hr y hy).pay hn
    by_cases htz : tz = true
    · simp only [htz, if_true]
      exact outCol_num _ .datetimetz rfl (by decide) hc (DtypePay.mk (fun h => by cases h) (fun _ => hp))
    · simp only [htz, Bool.false_eq_true, if_false]
      exact outCol_num _ .datetime rfl (by decide) hc (DtypePay.mk (fun h => by cases h) (fun _ => hp))

/-- object-valued outputs of `applyStr`: parsed cells, and missing cells carried over -/
theorem out_applyStr (c c' : Column) (p : StrFacts → Outcome Cell) (cls : String)
    (hG : (∀ x ∈ c.cells, CellWF x) ∧ (∀ x ∈ c.cells, PayWF x))
    (hp : ∀ x ∈ c.cells, ∀ f y, x.str = some f → p f = .ok y → ObjCell y)
    (h : applyStr c p (fun x => if x.null then .ok x else .raises cls) = .ok c') : OutCol c' := by
  obtain ⟨_, hcells⟩ := applyStr_spec c c' p _ h
  have hd : c'.dtype = .object := by
    simp only [applyStr] at h
    split at h
    · cases h
    · cases h; rfl
  refine outCol_obj c' hd ?_
  intro y hy
  rw [hcells] at hy
  obtain ⟨x, hx, hgx⟩ := List.mem_map.mp ((mem_oks _ y).mp hy)
  cases hs : x.str with
  | some f => rw [hs] at hgx; exact hp x hx f y hs hgx
  | none =>
    rw [hs] at hgx
    by_cases hn : x.null = true
    · simp only [hn, if_true, Outcome.ok.injEq] at hgx
      subst hgx
      exact .kept _ hn hs (hG.1 _ hx) (hG.2 _ hx)
    · simp only [hn, Bool.false_eq_true, if_false] at hgx; cases hgx

/-- every transformer output is a column of produced cells -/
theorem outputs_outCol (o : ColOracle) (src dst : Ty) (g : Column → R Bool) (t : Column → R Column) (c c' : Column)
    (hg : guard o src dst = some g) (ht : xform o src dst = some t) (hG : Good o c)
    (hsrc : containsB src c = true) (hacc : g c = .ok true) (hx : t c = .ok c') : OutCol c' := by
  have hwf : (∀ x ∈ c.cells, CellWF x) ∧ (∀ x ∈ c.cells, PayWF x) := ⟨hG.cellwf, hG.paywf⟩
  unfold guard at hg
  unfold xform at ht
  split at hg <;> (try cases hg) <;> simp only at ht <;> cases ht
  · exact out_objectToBoolean c c' hx
  · exact out_stringToBoolean c c' hx
  · exact out_stringToComplex c c' hx
  · exact out_stringToDatetime o c c' (hG.dtOut hsrc) hx
  · exact out_stringToFloat c c' hx
  · exact out_complexToFloat c c' hx
  · exact out_floatToInteger c c' hG.dtypePay hsrc hx
  · exact out_datetimeToDate c c' hG.dtypePay hsrc hx
  · -- Geometry
    refine out_applyStr c c' _ "TypeError" hwf ?_ hx
    intro x _ f y _ hy
    cases hw : f.wkt with
    | ok v => simp only [hw, Outcome.ok.injEq] at hy; subst hy; exact .geom _
    | raises cls => simp only [hw] at hy; cases hy
  · -- IPAddress
    refine out_applyStr c c' _ "ValueError" hwf ?_ hx
    intro x hxm f y hs hy
    cases hw : f.ip with
    | ok v =>
      obtain ⟨cls, r⟩ := v
      simp only [hw, Outcome.ok.injEq] at hy; subst hy
      exact .ip cls ((hG.strHyp x hxm f hs).2.2 cls r hw) r
    | raises cls => simp only [hw] at hy; cases hy
  · -- Path
    simp only [stringToPath] at hx
    split at hx
    · cases hx
    · split at hx
      · refine out_applyStr c c' _ "TypeError" hwf ?_ hx
        intro x _ f y _ hy
        cases hw : f.winAbs with
        | ok v => obtain ⟨b, r⟩ := v; simp only [hw, Outcome.ok.injEq] at hy; subst hy; exact .path _ (Or.inl rfl) _ _
        | raises cls => simp only [hw] at hy; cases hy
      · refine out_applyStr c c' _ "TypeError" hwf ?_ hx
        intro x _ f y _ hy
        cases hw : f.posixAbs with
        | ok v => obtain ⟨b, r⟩ := v; simp only [hw, Outcome.ok.injEq] at hy; subst hy; exact .path _ (Or.inr rfl) _ _
        | raises cls => simp only [hw] at hy; cases hy
  · -- URL
    refine out_applyStr c c' _ "AttributeError" hwf ?_ hx
    intro x _ f y _ hy
    cases hw : f.url with
    | ok v => obtain ⟨n, sc, r⟩ := v; simp only [hw, Outcome.ok.injEq] at hy; subst hy; exact .url _ _ _
    | raises cls => simp only [hw] at hy; cases hy
  · -- UUID
    refine out_applyStr c c' _ "AttributeError" hwf ?_ hx
    intro x _ f y _ hy
    cases hw : f.uuid with
    | ok v => simp only [hw, Outcome.ok.injEq] at hy; subst hy; exact .uuid _
    | raises cls => simp only [hw] at hy; cases hy
  · -- EmailAddress
    refine out_applyStr c c' _ "TypeError" hwf ?_ hx
    intro x _ f y _ hy
    cases hw : f.email with
    | ok v => simp only [hw, Outcome.ok.injEq] at hy; subst hy; exact .email _
    | raises cls => simp only [hw] at hy; cases hy

/-- **`Good` is closed under every transformer of the relation table** -/
theorem outputs_good (o : ColOracle) : OutputsGood o := by
  intro src dst g t c c' hg ht hG hsrc hacc hx
  exact good_of_outCol o c' (outputs_outCol o src dst g t c c' hg ht hG hsrc hacc hx)

/-- **the pandas backend model is a well-formed type system relative to `Good`** — no further hypothesis -/
theorem pandas_WF' (o : ColOracle) (b : Built Ty) (ft : FromTable b) : (pandasTS o b).WF (Good o) :=
  pandas_WF o b ft (outputs_good o)

end V.Pd

/-
  L2 (Mutex) for the pandas backend model at `Object` and `String` — C02.

  At `Object` the ten outgoing relations (nine identity children and Object→Boolean) each force a
  property of every non-missing cell; exclusivity of those cell properties (`HeadExcl`: facts about
  CPython's classes — a value is not at once a `str`, a `date`, a `ParseResult`, … — validated by α on
  every generated cell) gives exclusivity of the relations.  At `String` the ten inference relations
  each force a parser result on every non-missing cell; the theorem reduces sibling exclusivity to
  exclusivity of the *parsers* on one string (`StrExcl`, an explicit hypothesis that is known to fail
  for particular strings: findings F09–F12) plus `FloatComplex` (a float literal is a complex literal
  with zero imaginary part) and `DtExcl` (about `pd.to_datetime`).
-/
import VProofs.Obligations.PandasLands
namespace V.Pd
open V V.Gen

/-! ### Object -/

/-- acceptance of the relation `Object → d` (identity: membership of `d`; inference: the guard) -/
def acceptsObj (d : Ty) (c : Column) : Prop :=
  match d with
  | .Boolean => objectIsBoolean c = .ok true
  | d => containsB d c = true

/-- cells of a string-dtype column are strings (what the dtype guarantees; validated by α) -/
def DtypeCells (c : Column) : Prop :=
  c.dtype.isStringNonObject = true → ∀ x ∈ c.cells, x.null = false → x.isStr = true

theorem all_of_handle_notEmpty {P : Cell → Bool} {c : Column}
    (h : handleNullsB (notEmptyB (fun c => c.cells.all P)) c = true) : ∀ x ∈ c.cells, x.null = false → P x = true := by
  intro x hx hn
  have ⟨_, h2⟩ := handle_notEmpty_true h
  rcases h2 with ⟨_, h3⟩ | ⟨_, h3⟩
  · exact List.all_eq_true.mp h3 x (mem_dropna.mpr ⟨hx, hn⟩)
  · exact List.all_eq_true.mp h3 x hx

theorem all_of_notEmpty_handle {P : Cell → Bool} {c : Column}
    (h : notEmptyB (handleNullsB (fun c => c.cells.all P)) c = true) : ∀ x ∈ c.cells, x.null = false → P x = true := by
  intro x hx hn
  have ⟨_, h2⟩ := notEmpty_handle_true h
  rcases h2 with ⟨_, h3⟩ | ⟨_, h3⟩
  · exact List.all_eq_true.mp h3 x (mem_dropna.mpr ⟨hx, hn⟩)
  · exact List.all_eq_true.mp h3 x hx

theorem and_left_of_all {p q : Cell → Bool} {x : Cell} (h : (p x && q x) = true) : p x = true := by
  simp only [Bool.and_eq_true] at h; exact h.1

/-- every accepting relation out of `Object` forces its cell property on every non-missing cell -/
theorem acceptsObj_pred (d : Ty) (hd : d ∈ objChildren) (c : Column) (hdc : DtypeCells c)
    (h : acceptsObj d c) : ∀ x ∈ c.cells, x.null = false → objPred d x = true := by
  simp only [objChildren, List.mem_cons, List.not_mem_nil, or_false] at hd
  rcases hd with rfl | rfl | rfl | rfl | rfl | rfl | rfl | rfl | rfl | rfl
  · -- String
    intro x hx hn
    simp only [acceptsObj, containsB, stringContains, notSparseB] at h
    have ⟨_, h2⟩ := notEmpty_handle_true h
    have key : ∀ d : Column, d.dtype = c.dtype → (∀ y ∈ d.cells, y ∈ c.cells ∧ y.null = false) → x ∈ d.cells →
        (if d.dtype.isCategorical = true then false
         else if (!d.dtype.isObject) = true then d.dtype.isStringNonObject else isString d) = true → x.isStr = true := by
      intro d hdt hsub hxd hh
      rw [hdt] at hh
      by_cases hc : c.dtype.isCategorical = true
      · simp [hc] at hh
      · simp only [hc, Bool.false_eq_true, if_false] at hh
        by_cases ho : c.dtype.isObject = true
        · simp only [ho, Bool.not_true, Bool.false_eq_true, if_false] at hh
          -- isString d: every cell of the non-missing part is a str
          simp only [isString] at hh
          rcases handleNullsB_true hh with ⟨_, _, h3⟩ | ⟨_, h3⟩
          · split at h3
            · cases h3
            · rename_i hall
              have hall' : d.dropna.cells.all (·.isStr) = true := by simpa using hall
              exact List.all_eq_true.mp hall' x (mem_dropna.mpr ⟨hxd, (hsub x hxd).2⟩)
          · split at h3
            · cases h3
            · rename_i hall
              have hall' : d.cells.all (·.isStr) = true := by simpa using hall
              exact List.all_eq_true.mp hall' x hxd
        · have ho' : c.dtype.isObject = false := by simpa using ho
          simp only [ho', Bool.not_false, if_true] at hh
          exact hdc hh x hx hn
    rcases h2 with ⟨_, h3⟩ | ⟨hnn, h3⟩
    · exact key c.dropna (dropna_dtype c) (fun y hy => mem_dropna.mp hy) (mem_dropna.mpr ⟨hx, hn⟩) h3
    · exact key c rfl (fun y hy => ⟨hy, (hasnans_false_iff c).mp hnn y hy⟩) hx h3
  · intro x hx hn
    simp only [acceptsObj, containsB, dateContains, instanceAttrs_eq_all] at h
    exact and_left_of_all (all_of_handle_notEmpty h x hx hn)
  · intro x hx hn
    simp only [acceptsObj, containsB, timeContains, instanceAttrs_eq_all] at h
    exact and_left_of_all (all_of_handle_notEmpty h x hx hn)
  · intro x hx hn
    simp only [acceptsObj, containsB, urlContains, instanceAttrs_eq_all] at h
    exact and_left_of_all (all_of_handle_notEmpty h x hx hn)
  · intro x hx hn
    simp only [acceptsObj, containsB, uuidContains, instanceAttrs_eq_all] at h
    exact and_left_of_all (all_of_notEmpty_handle h x hx hn)
  · intro x hx hn
    simp only [acceptsObj, containsB, emailContains, instanceAttrs_eq_all] at h
    exact and_left_of_all (all_of_notEmpty_handle h x hx hn)
  · intro x hx hn
    simp only [acceptsObj, containsB, pathContains] at h
    exact and_left_of_all (all_of_notEmpty_handle h x hx hn)
  · intro x hx hn
    simp only [acceptsObj, containsB, geometryContains] at h
    exact all_of_notEmpty_handle h x hx hn
  · intro x hx hn
    simp only [acceptsObj, containsB, ipContains] at h
    exact all_of_notEmpty_handle h x hx hn
  · -- Object → Boolean
    intro x hx hn
    simp only [acceptsObj] at h
    have := handleNulls_all (Q := fun x => (match x.inBoolSet with | .ok b => b | .raises _ => false) = true) h (by
      intro d hd y hy
      simp only [Except.ok.injEq] at hd
      exact List.all_eq_true.mp hd y hy) x hx hn
    simp only [objPred]
    cases hb : x.inBoolSet with
    | ok b => rw [hb] at this; simp only at this; rw [this]; rfl
    | raises cls => rw [hb] at this; cases this

/-- no Python value satisfies two of the cell properties at once (CPython class facts) -/
def HeadExcl (x : Cell) : Prop :=
  ∀ a ∈ objChildren, ∀ b ∈ objChildren, a ≠ b → ¬ (objPred a x = true ∧ objPred b x = true)

/-- **C02_mutex_object_pandas**: on a column with a value, no two outgoing relations of `Object` accept -/
theorem mutex_object (c : Column) (hv : HasValue c) (hdc : DtypeCells c)
    (hex : ∀ x ∈ c.cells, x.null = false → HeadExcl x)
    (d₁ d₂ : Ty) (h₁ : d₁ ∈ objChildren) (h₂ : d₂ ∈ objChildren) (hne : d₁ ≠ d₂) :
    ¬ (acceptsObj d₁ c ∧ acceptsObj d₂ c) := by
  rintro ⟨a, b⟩
  obtain ⟨x, hx, hn⟩ := hv
  exact hex x hx hn d₁ h₁ d₂ h₂ hne ⟨acceptsObj_pred d₁ h₁ c hdc a x hx hn, acceptsObj_pred d₂ h₂ c hdc b x hx hn⟩

/-! the hypothesis is satisfiable and the theorem non-vacuous -/
example : HeadExcl (Cell.ofDate 737425) := by
  intro a ha b hb hne
  simp only [objChildren, List.mem_cons, List.not_mem_nil, or_false] at ha hb
  rcases ha with rfl | rfl | rfl | rfl | rfl | rfl | rfl | rfl | rfl | rfl <;>
    rcases hb with rfl | rfl | rfl | rfl | rfl | rfl | rfl | rfl | rfl | rfl <;>
    first | (exact absurd rfl hne) | decide


/-! ### String -/

def acceptsStr (o : ColOracle) (d : Ty) (c : Column) : Prop := ∃ g, guard o .String d = some g ∧ g c = .ok true

theorem firstRaise_none_all_ok {α : Type} {l : List (Outcome α)} (h : firstRaise l = none) : ∀ v ∈ l, v.isOk = true := by
  intro v hv
  obtain ⟨a, ha⟩ := (firstRaise_none_iff l).mp h v hv
  rw [ha]; rfl

/-- extract "first raise is none" from the `match firstRaise … with | some cls => … | _ => …` shape of the guards -/
theorem guard_match_none {α : Type} {l : List (Outcome α)} {k : String → R Bool} {r : R Bool}
    (h : (match firstRaise l with | some cls => k cls | _ => r) = .ok true)
    (hk : ∀ cls, k cls ≠ .ok true) : firstRaise l = none ∧ r = .ok true := by
  cases hq : firstRaise l with
  | none => rw [hq] at h; exact ⟨rfl, h⟩
  | some cls => rw [hq] at h; exact absurd h (hk cls)

theorem ite_ne_ok_true (b : Bool) (e : Err) : (if b = true then (.ok false : R Bool) else .error e) ≠ .ok true := by
  cases b <;> simp

/-- `handleNulls_all` where the function may also use that the column it sees has no missing cell -/
theorem handleNulls_all' {f : Column → R Bool} {c : Column} {Q : Cell → Prop}
    (h : handleNulls f c = .ok true)
    (hf : ∀ d : Column, d.dtype = c.dtype → (∀ y ∈ d.cells, y.null = false) → f d = .ok true → ∀ x ∈ d.cells, Q x) :
    ∀ x ∈ c.cells, x.null = false → Q x := by
  intro x hx hn
  rcases handleNulls_ok_true h with ⟨_, _, h3⟩ | ⟨hnn, h3⟩
  · exact hf _ (dropna_dtype c) (dropna_no_null c) h3 x (mem_dropna.mpr ⟨hx, hn⟩)
  · exact hf _ rfl ((hasnans_false_iff c).mp hnn) h3 x hx

/-- per-parser acceptance lemmas: the relation's test forces the parser result on every non-missing cell -/
theorem pred_boolean (c : Column) (hacc : stringIsBoolean c = .ok true) :
    ∀ x ∈ c.cells, x.null = false → ∃ f, x.str = some f ∧ strPred .Boolean f = true := by
  simp only [stringIsBoolean] at hacc
  split at hacc
  · cases hacc
  · apply handleNulls_all (Q := fun x => ∃ f, x.str = some f ∧ strPred .Boolean f = true) hacc
    intro d hd x hxd
    simp only [Except.ok.injEq, List.any_eq_true] at hd
    obtain ⟨i, _, hall⟩ := hd
    have := List.all_eq_true.mp hall x hxd
    cases hs : x.str with
    | none => rw [hs] at this; cases this
    | some f =>
      rw [hs] at this
      cases hk : f.boolKey with
      | none => simp only [hk] at this; cases this
      | some jb => exact ⟨f, rfl, by simp [strPred, hk]⟩

theorem pred_float (c : Column) (hacc : stringIsFloat c = .ok true) :
    ∀ x ∈ c.cells, x.null = false → ∃ f, x.str = some f ∧ strPred .Float f = true := by
  simp only [stringIsFloat] at hacc
  apply handleNulls_all' (Q := fun x => ∃ f, x.str = some f ∧ strPred .Float f = true) hacc
  intro d _ hnn hd x hxd
  have ⟨hq, _⟩ := guard_match_none hd (fun cls => ite_ne_ok_true _ _)
  have := firstRaise_none_all_ok hq (cellFloat d.dtype x) (List.mem_map_of_mem hxd)
  cases hs : x.str with
  | none => simp [cellFloat, hs, hnn x hxd, Outcome.isOk] at this
  | some f => exact ⟨f, rfl, by simpa [strPred, cellFloat, hs] using this⟩

theorem pred_of_firstRaise (c : Column) (sel : StrFacts → Outcome α) (cls : String)
    (hq : firstRaise (c.cells.map (fun x => match x.str with | some f => sel f | none => Outcome.raises cls)) = none) :
    ∀ x ∈ c.cells, ∃ f, x.str = some f ∧ (sel f).isOk = true := by
  intro x hx
  have := firstRaise_none_all_ok hq _ (List.mem_map_of_mem hx)
  cases hs : x.str with
  | none => simp [hs, Outcome.isOk] at this
  | some f => exact ⟨f, rfl, by simpa [hs] using this⟩

theorem pred_ip (c : Column) (hacc : stringIsIp c = .ok true) :
    ∀ x ∈ c.cells, x.null = false → ∃ f, x.str = some f ∧ strPred .IPAddress f = true := by
  simp only [stringIsIp] at hacc
  apply handleNulls_all (Q := fun x => ∃ f, x.str = some f ∧ strPred .IPAddress f = true) hacc
  intro d hd x hxd
  have ⟨hq, _⟩ := guard_match_none hd (fun cls => ite_ne_ok_true _ _)
  exact pred_of_firstRaise d (·.ip) "ValueError" hq x hxd

theorem pred_uuid (c : Column) (hacc : stringIsUuid c = .ok true) :
    ∀ x ∈ c.cells, x.null = false → ∃ f, x.str = some f ∧ strPred .UUID f = true := by
  simp only [stringIsUuid] at hacc
  apply handleNulls_all (Q := fun x => ∃ f, x.str = some f ∧ strPred .UUID f = true) hacc
  intro d hd x hxd
  have ⟨hq, _⟩ := guard_match_none hd (fun cls => ite_ne_ok_true _ _)
  exact pred_of_firstRaise d (·.uuid) "AttributeError" hq x hxd

theorem pred_email (c : Column) (hacc : stringIsEmail c = .ok true) :
    ∀ x ∈ c.cells, x.null = false → ∃ f, x.str = some f ∧ strPred .EmailAddress f = true := by
  simp only [stringIsEmail] at hacc
  apply handleNulls_all (Q := fun x => ∃ f, x.str = some f ∧ strPred .EmailAddress f = true) hacc
  intro d hd x hxd
  have ⟨hq, _⟩ := guard_match_none hd (fun cls => ite_ne_ok_true _ _)
  exact pred_of_firstRaise d (·.email) "TypeError" hq x hxd

theorem pred_url (c : Column) (hacc : stringIsUrl c = .ok true) :
    ∀ x ∈ c.cells, x.null = false → ∃ f, x.str = some f ∧ strPred .URL f = true := by
  simp only [stringIsUrl] at hacc
  apply handleNulls_all (Q := fun x => ∃ f, x.str = some f ∧ strPred .URL f = true) hacc
  intro d hd x hxd
  have ⟨hq, hr⟩ := guard_match_none hd (fun cls => ite_ne_ok_true _ _)
  obtain ⟨f, hf, _⟩ := pred_of_firstRaise d (·.url) "AttributeError" hq x hxd
  refine ⟨f, hf, ?_⟩
  simp only [Except.ok.injEq] at hr
  have := List.all_eq_true.mp hr _ (List.mem_map_of_mem hxd)
  simp only [hf] at this
  simp only [strPred]
  cases hu : f.url with
  | ok v => rw [hu] at this; obtain ⟨n, s, r⟩ := v; exact this
  | raises cls => rw [hu] at this; cases this

theorem pred_path (c : Column) (hacc : stringIsPath c = .ok true) :
    ∀ x ∈ c.cells, x.null = false → ∃ f, x.str = some f ∧ strPred .Path f = true := by
  obtain ⟨hq, hflav⟩ := stringIsPath_spec c hacc
  intro x hx hn
  have hin : x ∈ c.dropna.cells := mem_dropna.mpr ⟨hx, hn⟩
  have hok := firstRaise_none_all_ok hq (winOut x) (List.mem_map_of_mem hin)
  cases hs : x.str with
  | none => simp [winOut, hs, Outcome.isOk] at hok
  | some f =>
    refine ⟨f, rfl, ?_⟩
    simp only [strPred, Bool.or_eq_true]
    rcases hflav with hall | ⟨_, hpx⟩
    · left
      have := List.all_eq_true.mp hall (winOut x) (List.mem_map_of_mem hin)
      simp only [winOut, hs] at this
      cases hw : f.winAbs with
      | ok v => rw [hw] at this; obtain ⟨b, r⟩ := v; exact this
      | raises cls => rw [hw] at this; cases this
    · right
      have := List.all_eq_true.mp hpx (pxOut x) (List.mem_map_of_mem hin)
      simp only [pxOut, hs] at this
      cases hw : f.posixAbs with
      | ok v => rw [hw] at this; obtain ⟨b, r⟩ := v; exact this
      | raises cls => rw [hw] at this; cases this

theorem pred_geometry (c : Column) (hacc : stringIsGeometry c = .ok true) :
    ∀ x ∈ c.cells, x.null = false → ∃ f, x.str = some f ∧ strPred .Geometry f = true := by
  simp only [stringIsGeometry] at hacc
  apply handleNulls_all (Q := fun x => ∃ f, x.str = some f ∧ strPred .Geometry f = true) hacc
  intro d hd
  -- the loop returns `ok true` only if every cell parsed to a truthy geometry
  have loop : ∀ (caught : String → Bool) (l : List Cell), stringIsGeometry.go caught l = .ok true →
      ∀ x ∈ l, ∃ f, x.str = some f ∧ strPred .Geometry f = true := by
    intro caught l
    induction l with
    | nil => intro _ x hx; cases hx
    | cons a l ih =>
      intro h x hx
      simp only [stringIsGeometry.go] at h
      cases hs : a.str with
      | none => simp only [hs] at h; split at h <;> cases h
      | some f =>
        simp only [hs] at h
        cases hw : f.wkt with
        | raises cls => simp only [hw] at h; split at h <;> cases h
        | ok v =>
          obtain ⟨t, r⟩ := v
          simp only [hw] at h
          cases t with
          | false => simp at h
          | true =>
            simp only [if_true] at h
            rcases List.mem_cons.mp hx with rfl | hx
            · exact ⟨f, hs, by simp [strPred, hw]⟩
            · exact ih h x hx
  exact loop _ d.cells hd


/-- what acceptance of String→Complex says: every cell (missing or not) went through `complex()`, and some
non-NaN result has a non-zero imaginary part -/
theorem complex_spec (c : Column) (hacc : stringIsComplex c = .ok true) :
    firstRaise (c.cells.map cellComplex) = none ∧
    ∃ p ∈ oks (c.cells.map cellComplex), (p.1.isNan || p.2.isNan) = false ∧ p.2.isZero = false := by
  simp only [stringIsComplex] at hacc
  have ⟨hq, hr⟩ := guard_match_none hacc (fun cls => ite_ne_ok_true _ _)
  refine ⟨hq, ?_⟩
  split at hr
  · cases hr
  · rename_i hall
    have hall' : ((oks (c.cells.map cellComplex)).filter (fun p => !(p.1.isNan || p.2.isNan))).all (fun p => p.2.isZero) = false := by
      simpa using hall
    rw [List.all_eq_false] at hall'
    obtain ⟨p, hp, hz⟩ := hall'
    have ⟨hm, hnn⟩ := List.mem_filter.mp hp
    exact ⟨p, hm, by simpa using hnn, by simpa using hz⟩

theorem pred_complex (c : Column) (hacc : stringIsComplex c = .ok true) :
    ∀ x ∈ c.cells, x.null = false → ∃ f, x.str = some f ∧ strPred .Complex f = true := by
  obtain ⟨hq, _⟩ := complex_spec c hacc
  intro x hx hn
  have := firstRaise_none_all_ok hq (cellComplex x) (List.mem_map_of_mem hx)
  cases hs : x.str with
  | none => simp [cellComplex, hs, hn, Outcome.isOk] at this
  | some f => exact ⟨f, rfl, by simpa [strPred, cellComplex, hs] using this⟩

/-- the element parsers accept disjoint sets of strings (H_parsers_disjoint) — for one string.  This is an explicit
hypothesis: it is what the library's design assumes, it is validated by the harness on every generated string, and it
is *false* for the strings of known findings F10–F12 (`'1'*32`, `'http://u@h'`, `'/a@b'`).  `Complex` is left out of the
pairs with `Float` (every float literal is a complex literal): that pair is handled by `FloatComplex`. -/
def StrExcl (f : StrFacts) : Prop :=
  ∀ a ∈ strParsers, ∀ b ∈ strParsers, a ≠ b → ¬ (a = .Complex ∧ b = .Float) → ¬ (a = .Float ∧ b = .Complex) →
    ¬ (strPred a f = true ∧ strPred b f = true)

/-- `float(s)` succeeding means `complex(s)` succeeds with a zero (or NaN-free zero) imaginary part -/
def FloatComplex (f : StrFacts) : Prop :=
  ∀ v, f.floatVal = .ok v → ∃ re im, f.complexVal = .ok (re, im) ∧ im.isZero = true

/-- `pd.to_datetime` does not accept what another parser accepts (false for digit strings: finding F09) -/
def DtExcl (o : ColOracle) (c : Column) : Prop :=
  stringIsDatetime o c = .ok true → ∀ d ∈ strParsers, ¬ acceptsStr o d c

theorem acceptsStr_pred (o : ColOracle) (d : Ty) (hd : d ∈ strParsers) (c : Column) (h : acceptsStr o d c) :
    ∀ x ∈ c.cells, x.null = false → ∃ f, x.str = some f ∧ strPred d f = true := by
  obtain ⟨g, hg, hacc⟩ := h
  simp only [strParsers, List.mem_cons, List.not_mem_nil, or_false] at hd
  rcases hd with rfl | rfl | rfl | rfl | rfl | rfl | rfl | rfl | rfl <;>
    simp only [guard, Option.some.injEq] at hg <;> subst hg
  · exact pred_boolean c hacc
  · exact pred_float c hacc
  · exact pred_geometry c hacc
  · exact pred_ip c hacc
  · exact pred_path c hacc
  · exact pred_url c hacc
  · exact pred_uuid c hacc
  · exact pred_email c hacc
  · exact pred_complex c hacc

/-- Float and Complex never both accept: if every value is a float literal, every imaginary part is zero -/
theorem float_complex_excl (c : Column) (hsn : StrNotNull c)
    (hfc : ∀ x ∈ c.cells, ∀ f, x.str = some f → FloatComplex f)
    (hf : stringIsFloat c = .ok true) (hc : stringIsComplex c = .ok true) : False := by
  obtain ⟨hq, p, hp, hnn, hz⟩ := complex_spec c hc
  have := (mem_oks _ p).mp hp
  obtain ⟨x, hx, hgx⟩ := List.mem_map.mp this
  by_cases hn : x.null = true
  · -- a missing cell contributes (nan, 0) or raises
    simp only [cellComplex] at hgx
    cases hs : x.str with
    | some f =>
      have := hsn x hx (by simp [hs])
      rw [hn] at this; cases this
    | none =>
      rw [hs] at hgx
      simp only [hn, if_true, Outcome.ok.injEq] at hgx
      subst hgx; simp [FloatV.isNan] at hnn
  · have hn' : x.null = false := by simpa using hn
    obtain ⟨f, hs, hpf⟩ := pred_float c hf x hx hn'
    simp only [cellComplex, hs] at hgx
    simp only [strPred] at hpf
    cases hfv : f.floatVal with
    | raises cls => rw [hfv] at hpf; cases hpf
    | ok v =>
      obtain ⟨re, im, hcv, him⟩ := hfc x hx f hs v hfv
      rw [hcv] at hgx
      cases hgx
      rw [him] at hz; cases hz

/-- **C02_mutex_string_pandas**: on a String column with a value, no two inference relations out of `String`
accept — given that the element parsers (and `pd.to_datetime`) accept disjoint sets of strings -/
theorem mutex_string (o : ColOracle) (c : Column) (hv : HasValue c) (hsn : StrNotNull c)
    (hex : ∀ x ∈ c.cells, ∀ f, x.str = some f → StrExcl f ∧ FloatComplex f)
    (hdt : DtExcl o c)
    (d₁ d₂ : Ty) (h₁ : d₁ ∈ .DateTime :: strParsers) (h₂ : d₂ ∈ .DateTime :: strParsers) (hne : d₁ ≠ d₂) :
    ¬ (acceptsStr o d₁ c ∧ acceptsStr o d₂ c) := by
  rintro ⟨a, b⟩
  -- DateTime against a parser
  have dtcase : ∀ d ∈ strParsers, acceptsStr o .DateTime c → acceptsStr o d c → False := by
    intro d hd hdta hda
    obtain ⟨g, hg, hacc⟩ := hdta
    simp only [guard, Option.some.injEq] at hg
    subst hg
    exact hdt hacc d hd hda
  rcases List.mem_cons.mp h₁ with rfl | h₁'
  · rcases List.mem_cons.mp h₂ with rfl | h₂'
    · exact hne rfl
    · exact dtcase d₂ h₂' a b
  · rcases List.mem_cons.mp h₂ with rfl | h₂'
    · exact dtcase d₁ h₁' b a
    · -- two parsers: look at the first value
      obtain ⟨x, hx, hn⟩ := hv
      obtain ⟨f, hs, hp1⟩ := acceptsStr_pred o d₁ h₁' c a x hx hn
      obtain ⟨f', hs', hp2⟩ := acceptsStr_pred o d₂ h₂' c b x hx hn
      rw [hs] at hs'; cases hs'
      by_cases hfc1 : d₁ = .Complex ∧ d₂ = .Float
      · obtain ⟨rfl, rfl⟩ := hfc1
        obtain ⟨g, hg, hacc⟩ := a
        obtain ⟨g', hg', hacc'⟩ := b
        simp only [guard, Option.some.injEq] at hg hg'
        subst hg; subst hg'
        exact float_complex_excl c hsn (fun x hx f hf => (hex x hx f hf).2) hacc' hacc
      · by_cases hfc2 : d₁ = .Float ∧ d₂ = .Complex
        · obtain ⟨rfl, rfl⟩ := hfc2
          obtain ⟨g, hg, hacc⟩ := a
          obtain ⟨g', hg', hacc'⟩ := b
          simp only [guard, Option.some.injEq] at hg hg'
          subst hg; subst hg'
          exact float_complex_excl c hsn (fun x hx f hf => (hex x hx f hf).2) hacc hacc'
        · exact (hex x hx f hs).1 d₁ h₁' d₂ h₂' hne hfc1 hfc2 ⟨hp1, hp2⟩

end V.Pd

/-
  Lemmas about the LRU model: one-step characterisation of `get`, the invariant, refinement to
  the "distinct keys by most recent use" specification.
-/
import VModel.LRU
namespace V

variable {K V A : Type} [DecidableEq K]

theorem any_key_iff (items : List (K × V)) (k : K) :
    items.any (fun e => e.1 == k) = true ↔ k ∈ items.map (·.1) := by
  simp [List.any_eq_true, List.mem_map]

theorem lookup_some_of_mem (items : List (K × V)) (k : K) (h : k ∈ items.map (·.1)) :
    ∃ v, (items.find? (fun e => e.1 == k)).map (·.2) = some v ∧ (k, v) ∈ items := by
  induction items with
  | nil => cases h
  | cons e items ih =>
    simp only [List.find?_cons]
    by_cases he : e.1 = k
    · refine ⟨e.2, by simp [he], ?_⟩
      rw [← he]; exact List.mem_cons_self
    · have : k ∈ items.map (·.1) := by
        simp only [List.map_cons, List.mem_cons] at h
        rcases h with h | h
        · exact absurd h.symm he
        · exact h
      obtain ⟨v, h1, h2⟩ := ih this
      refine ⟨v, ?_, List.mem_cons_of_mem _ h2⟩
      have : (e.1 == k) = false := by simpa using he
      simp [this, h1]

theorem filter_ne_of_not_mem (items : List (K × V)) (k : K) (h : k ∉ items.map (·.1)) :
    items.filter (fun e => e.1 != k) = items := by
  rw [List.filter_eq_self]
  intro e he
  have : e.1 ≠ k := fun hk => h (by rw [← hk]; exact List.mem_map_of_mem he)
  simpa using this

/-- what `get` does on a hit -/
theorem get_hit (c : LRU K V) (key : A → K) (f : A → V) (a : A)
    (h : key a ∈ c.keys) :
    ∃ v, (key a, v) ∈ c.items ∧
      c.get key f a = (some v, { c with items := c.items.filter (fun e => e.1 != key a) ++ [(key a, v)] }, false) := by
  obtain ⟨v, hv, hm⟩ := lookup_some_of_mem c.items (key a) h
  refine ⟨v, hm, ?_⟩
  have hany : c.items.any (fun e => e.1 == key a) = true := (any_key_iff _ _).mpr h
  simp only [LRU.get, hany, if_true, LRU.getitem, LRU.lookup, hv]

/-- what `get` does on a miss, for a cache of capacity at least one -/
theorem get_miss (c : LRU K V) (key : A → K) (f : A → V) (a : A)
    (h : key a ∉ c.keys) (hcap : 1 ≤ c.cap) (hlen : c.items.length ≤ c.cap) :
    c.get key f a =
      (some (f a),
       { c with items := (if c.items.length + 1 > c.cap then c.items.tail else c.items) ++ [(key a, f a)] },
       true) := by
  have hany : c.items.any (fun e => e.1 == key a) = false := by
    cases hb : c.items.any (fun e => e.1 == key a) with
    | false => rfl
    | true => exact absurd ((any_key_iff _ _).mp hb) h
  -- the list after setitem
  have hitems1 : (if (c.items ++ [(key a, f a)]).length > c.cap then (c.items ++ [(key a, f a)]).tail
        else c.items ++ [(key a, f a)])
      = (if c.items.length + 1 > c.cap then c.items.tail else c.items) ++ [(key a, f a)] := by
    simp only [List.length_append, List.length_singleton]
    split
    · cases hi : c.items with
      | nil => simp [hi] at *; omega
      | cons e es => simp
    · rfl
  -- k is not among the keys of the kept prefix
  have hnot : key a ∉ (if c.items.length + 1 > c.cap then c.items.tail else c.items).map (·.1) := by
    intro hm
    apply h
    split at hm
    · rw [List.map_tail] at hm; exact List.mem_of_mem_tail hm
    · exact hm
  simp only [LRU.get, hany, LRU.setitem, Bool.false_eq_true, if_false, hitems1, LRU.getitem, LRU.lookup]
  have hfind : ((if c.items.length + 1 > c.cap then c.items.tail else c.items) ++ [(key a, f a)]).find?
      (fun e => e.1 == key a) = some (key a, f a) := by
    rw [List.find?_append]
    have : (if c.items.length + 1 > c.cap then c.items.tail else c.items).find? (fun e => e.1 == key a) = none := by
      rw [List.find?_eq_none]
      intro e he hk
      exact hnot (by rw [← (by simpa using hk : e.1 = key a)]; exact List.mem_map_of_mem he)
    simp [this]
  simp only [hfind, Option.map_some]
  congr 2
  rw [List.filter_append, filter_ne_of_not_mem _ _ hnot]
  simp

/-! ### invariant -/

/-- keys distinct, at most `cap` entries, every cached value is `f` of an argument with that key -/
structure LRU.Inv (c : LRU K V) (key : A → K) (f : A → V) : Prop where
  nodup : c.keys.Nodup
  bounded : c.items.length ≤ c.cap
  values : ∀ e ∈ c.items, ∃ a, key a = e.1 ∧ e.2 = f a

theorem keys_filter_append (items : List (K × V)) (k : K) (v : V) :
    (items.filter (fun e => e.1 != k) ++ [(k, v)]).map (·.1) = (items.map (·.1)).filter (· != k) ++ [k] := by
  simp [List.filter_map, Function.comp_def]

theorem nodup_filter_append (l : List K) (k : K) (h : l.Nodup) : (l.filter (· != k) ++ [k]).Nodup := by
  rw [List.nodup_append]
  refine ⟨h.sublist List.filter_sublist, by simp, ?_⟩
  intro a ha b hb
  simp only [List.mem_singleton] at hb
  subst hb
  have := (List.mem_filter.mp ha).2
  simpa using this

theorem inv_get (c : LRU K V) (key : A → K) (f : A → V) (a : A) (hcap : 1 ≤ c.cap)
    (inv : c.Inv key f) : (c.get key f a).2.1.Inv key f ∧ (c.get key f a).2.1.cap = c.cap := by
  by_cases h : key a ∈ c.keys
  · obtain ⟨v, hm, hg⟩ := get_hit c key f a h
    rw [hg]
    refine ⟨⟨?_, ?_, ?_⟩, rfl⟩
    · simp only [LRU.keys]
      rw [keys_filter_append]
      exact nodup_filter_append _ _ inv.nodup
    · -- length: one entry with key k is removed, one added
      simp only [List.length_append, List.length_singleton]
      have hlt : (c.items.filter (fun e => e.1 != key a)).length < c.items.length := by
        apply List.length_filter_lt_length_iff_exists.mpr
        exact ⟨(key a, v), hm, by simp⟩
      have := inv.bounded
      omega
    · intro e he
      rcases List.mem_append.mp he with he | he
      · exact inv.values e (List.mem_filter.mp he).1
      · simp only [List.mem_singleton] at he
        subst he
        exact inv.values _ hm
  · rw [get_miss c key f a h hcap inv.bounded]
    refine ⟨⟨?_, ?_, ?_⟩, rfl⟩
    · simp only [LRU.keys, List.map_append, List.map_cons, List.map_nil]
      rw [List.nodup_append]
      refine ⟨?_, by simp, ?_⟩
      · split
        · rw [List.map_tail]; exact inv.nodup.sublist (List.tail_sublist _)
        · exact inv.nodup
      · intro x hx y hy
        simp only [List.mem_singleton] at hy
        subst hy
        intro hxy
        subst hxy
        apply h
        split at hx
        · rw [List.map_tail] at hx; exact List.mem_of_mem_tail hx
        · exact hx
    · simp only [List.length_append, List.length_singleton]
      have := inv.bounded
      split
      · simp only [List.length_tail]; omega
      · omega
    · intro e he
      rcases List.mem_append.mp he with he | he
      · apply inv.values
        split at he
        · exact List.mem_of_mem_tail he
        · exact he
      · simp only [List.mem_singleton] at he
        subst he
        exact ⟨a, rfl, rfl⟩

theorem length_filter_ne_add_one (l : List K) (k : K) (hnd : l.Nodup) (hk : k ∈ l) :
    (l.filter (· != k)).length + 1 = l.length := by
  induction l with
  | nil => cases hk
  | cons x l ih =>
    have ⟨hx, hl⟩ := List.nodup_cons.mp hnd
    by_cases hxk : x = k
    · subst hxk
      have : l.filter (· != x) = l := by
        rw [List.filter_eq_self]; intro y hy; simpa using (fun (e : y = x) => hx (e ▸ hy))
      simp [this]
    · have hk' : k ∈ l := by
        rcases List.mem_cons.mp hk with h | h
        · exact absurd h.symm hxk
        · exact h
      have := ih hl hk'
      have hb : (x != k) = true := by simpa using hxk
      simp [hb]
      omega

/-! ### refinement to "distinct keys by most recent use" -/

/-- the specification state: all keys ever used, least recently used first -/
def touch (l : List K) (k : K) : List K := l.filter (· != k) ++ [k]

/-- the cache holds the most recently used keys: the recency list is `old ++ keys`, and keys have
been dropped (`old ≠ []`) only when the cache is full -/
def Refines (c : LRU K V) (spec : List K) : Prop :=
  ∃ old, spec = old ++ c.keys ∧ (old ≠ [] → c.items.length = c.cap) ∧ spec.Nodup

theorem refines_get (c : LRU K V) (key : A → K) (f : A → V) (a : A) (hcap : 1 ≤ c.cap)
    (hb : c.items.length ≤ c.cap) (spec : List K) (hr : Refines c spec) :
    Refines (c.get key f a).2.1 (touch spec (key a)) := by
  obtain ⟨old, hs, hfull, hnd⟩ := hr
  by_cases h : key a ∈ c.keys
  · obtain ⟨v, hm, hg⟩ := get_hit c key f a h
    rw [hg]
    obtain ⟨cap, items⟩ := c
    simp only [LRU.keys] at *
    have hold : key a ∉ old := by
      intro ho
      rw [hs, List.nodup_append] at hnd
      exact hnd.2.2 _ ho _ h rfl
    have holdf : old.filter (· != key a) = old := by
      rw [List.filter_eq_self]; intro x hx; simpa using (fun (e : x = key a) => hold (e ▸ hx))
    refine ⟨old, ?_, ?_, ?_⟩
    · simp only [touch, hs, List.filter_append, holdf, LRU.keys]
      rw [keys_filter_append]
      simp
    · intro ho
      simp only [List.length_append, List.length_singleton]
      have hkn : (items.map (·.1)).Nodup := by rw [hs, List.nodup_append] at hnd; exact hnd.2.1
      have e1 : (items.filter (fun e => e.1 != key a)).length
          = ((items.map (·.1)).filter (· != key a)).length := by
        simp [List.filter_map, Function.comp_def]
      have := length_filter_ne_add_one _ _ hkn h
      have := hfull ho
      simp only [List.length_map] at *
      omega
    · exact nodup_filter_append _ _ hnd
  · rw [get_miss c key f a h hcap hb]
    obtain ⟨cap, items⟩ := c
    simp only [LRU.keys] at *
    have hkeysf : (items.map (·.1)).filter (· != key a) = items.map (·.1) := by
      rw [List.filter_eq_self]; intro x hx; simpa using (fun (e : x = key a) => h (e ▸ hx))
    by_cases hfl : items.length + 1 > cap
    · -- full: the least recently used cached key (the head) is evicted
      have hlen : items.length = cap := by omega
      cases items with
      | nil => simp at hlen; omega
      | cons e es =>
        refine ⟨old.filter (· != key a) ++ [e.1], ?_, ?_, ?_⟩
        · simp only [touch, hs, List.filter_append, LRU.keys, hfl, if_true, List.tail_cons,
            List.map_append, List.map_cons, List.map_nil]
          simp only [List.map_cons] at hkeysf
          rw [hkeysf]
          simp
        · intro _
          simp only [hfl, if_true, List.tail_cons, List.length_append, List.length_singleton]
          simpa using hlen
        · exact nodup_filter_append _ _ hnd
    · -- not full: nothing was ever evicted
      have hold : old = [] := by
        cases old with
        | nil => rfl
        | cons o os => have := hfull (by simp); omega
      subst hold
      refine ⟨[], ?_, by simp, ?_⟩
      · simp only [touch, hs, List.nil_append, hkeysf, LRU.keys, hfl, if_false, List.map_append,
          List.map_cons, List.map_nil]
      · exact nodup_filter_append _ _ hnd

end V

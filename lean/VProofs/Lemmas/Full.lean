/-
  Lemmas about the full engine (`traverse`, state + errors): agreement with the pure engine on
  pure relations; the declarative reference semantics `Run` and its equivalence with `traverse`
  (C12); frame traversal as an independent map over columns (C08); sampled traversal (C18);
  totality lifting (C09).
-/
import VModel.Engine
import VProofs.Lemmas.Pure
namespace V

variable {T D S : Type}

/-! ### pure relations embedded in the full engine -/

def liftSucc (ps : T → List (PRel T D)) : Graph T D S := { succ := fun n => (ps n).map PRel.toRel }

theorem firstAccept_pure (prs : List (PRel T D)) (x : D) (s : S) :
    firstAccept (prs.map (PRel.toRel (S := S))) x s = .ok ((pfirst prs x).map PRel.toRel, s) := by
  induction prs with
  | nil => rfl
  | cons r rs ih =>
    simp only [List.map_cons, firstAccept, pfirst, List.find?_cons]
    have e : (PRel.toRel (S := S) r).guard x s = .ok (r.guard x, s) := rfl
    rw [e]
    cases hg : r.guard x with
    | true => simp
    | false => simpa [pfirst] using ih

/-- On a graph of pure relations, with fuel above the height of the start node, the full engine
returns exactly the pure traversal, the accumulated path extended by the pure path, and the state
it was given. -/
theorem traverse_pure (ps : T → List (PRel T D)) (h : T → Nat)
    (hh : ∀ n r, r ∈ ps n → h r.dst < h n) :
    ∀ f n x (s : S) acc, h n < f →
      traverse (liftSucc ps) f n x s acc =
        .ok ((ptraverse ps f n x).1, acc ++ (ptraverse ps f n x).2, s) := by
  intro f
  induction f with
  | zero => intro n x s acc hf; omega
  | succ f ih =>
    intro n x s acc hf
    simp only [traverse, liftSucc, firstAccept_pure, ptraverse]
    cases hfa : pfirst (ps n) x with
    | none => simp
    | some r =>
      have hmem : r ∈ ps n := List.mem_of_find?_eq_some hfa
      have := hh n r hmem
      simp only [Option.map_some, PRel.toRel]
      have e := ih r.dst (r.xform x) s (acc ++ [n]) (by omega)
      simp only [liftSucc] at e
      rw [e]
      simp [List.append_assoc]

theorem base_liftSucc (ps : T → List (PRel T D)) :
    (liftSucc (S := S) ps).base = liftSucc (pbase ps) := by
  simp only [Graph.base, liftSucc, pbase, List.filter_map]
  congr 1

/-! ### the declarative reference semantics (C12)

  "start at the root, repeatedly follow the outgoing relation that accepts the current data, apply
  its transformer, stop when none accepts, report the visited path; the same state is handed to every
  guard and transformer in turn". -/

/-- the guards of a list of relations all reject `x`, threading the state from `s` to `s'` -/
inductive Rejects : List (Rel T D S) → D → S → S → Prop where
  | nil {x s} : Rejects [] x s s
  | cons {r rs x s s1 s2} : r.guard x s = .ok (false, s1) → Rejects rs x s1 s2 → Rejects (r :: rs) x s s2

/-- one hop: the relations before `r` in adjacency order reject (each seeing the state its
predecessor left), `r` accepts, its transformer is applied with the state the guard left -/
inductive Hop (g : Graph T D S) : T × D × S → T × D × S → Prop where
  | mk {n x s s0 s1 s2 x'} (pre post : List (Rel T D S)) (r : Rel T D S) :
      g.succ n = pre ++ r :: post → Rejects pre x s s0 →
      r.guard x s0 = .ok (true, s1) → r.xform x s1 = .ok (x', s2) →
      Hop g (n, x, s) (r.dst, x', s2)

/-- a maximal run from a configuration: the visited path (starting with the current node), the
final data and the final state -/
inductive Run (g : Graph T D S) : T × D × S → List T → D × S → Prop where
  | stop {n x s s'} : Rejects (g.succ n) x s s' → Run g (n, x, s) [n] (x, s')
  | step {n x s c' p res} : Hop g (n, x, s) c' → Run g c' p res → Run g (n, x, s) (n :: p) res

theorem firstAccept_none_iff (rs : List (Rel T D S)) (x : D) (s s' : S) :
    firstAccept rs x s = .ok (none, s') ↔ Rejects rs x s s' := by
  induction rs generalizing s with
  | nil =>
    simp only [firstAccept]
    constructor
    · intro h; cases h; exact Rejects.nil
    · intro h; cases h; rfl
  | cons r rs ih =>
    simp only [firstAccept]
    constructor
    · intro h
      cases hg : r.guard x s with
      | error e => rw [hg] at h; cases h
      | ok v =>
        obtain ⟨b, s1⟩ := v
        rw [hg] at h
        cases b with
        | true => cases h
        | false => exact Rejects.cons hg ((ih s1).mp h)
    · intro h
      cases h with
      | cons hg hr => rw [hg]; exact (ih _).mpr hr

theorem firstAccept_some_iff (rs : List (Rel T D S)) (x : D) (s s1 : S) (r : Rel T D S) :
    firstAccept rs x s = .ok (some r, s1) ↔
      ∃ pre post s0, rs = pre ++ r :: post ∧ Rejects pre x s s0 ∧ r.guard x s0 = .ok (true, s1) := by
  induction rs generalizing s with
  | nil =>
    simp only [firstAccept]
    constructor
    · intro h; cases h
    · rintro ⟨pre, post, s0, h, _⟩; cases pre <;> cases h
  | cons q rs ih =>
    simp only [firstAccept]
    constructor
    · intro h
      cases hg : q.guard x s with
      | error e => rw [hg] at h; cases h
      | ok v =>
        obtain ⟨b, s'⟩ := v
        rw [hg] at h
        cases b with
        | true =>
          cases h
          exact ⟨[], rs, s, rfl, Rejects.nil, hg⟩
        | false =>
          obtain ⟨pre, post, s0, e, hr, ha⟩ := (ih s').mp h
          exact ⟨q :: pre, post, s0, by rw [e]; rfl, Rejects.cons hg hr, ha⟩
    · rintro ⟨pre, post, s0, e, hr, ha⟩
      cases pre with
      | nil =>
        cases hr
        simp only [List.nil_append, List.cons.injEq] at e
        obtain ⟨rfl, rfl⟩ := e
        rw [ha]
      | cons p pre =>
        simp only [List.cons_append, List.cons.injEq] at e
        obtain ⟨rfl, rfl⟩ := e
        cases hr with
        | cons hg hr' =>
          rw [hg]
          exact (ih _).mpr ⟨pre, post, s0, rfl, hr', ha⟩

/-- **Soundness of the engine w.r.t. the reference semantics**: whatever `traverse` returns is a
maximal run of the documented traversal, and the accumulated path is only appended to. -/
theorem traverse_run (g : Graph T D S) :
    ∀ f n x s acc d p s', traverse g f n x s acc = .ok (d, p, s') →
      ∃ q, p = acc ++ q ∧ Run g (n, x, s) q (d, s') := by
  intro f
  induction f with
  | zero => intro n x s acc d p s' h; simp [traverse] at h
  | succ f ih =>
    intro n x s acc d p s' h
    simp only [traverse] at h
    cases hfa : firstAccept (g.succ n) x s with
    | error e => rw [hfa] at h; cases h
    | ok v =>
      obtain ⟨o, s1⟩ := v
      rw [hfa] at h
      cases o with
      | none =>
        simp only [Except.ok.injEq, Prod.mk.injEq] at h
        obtain ⟨rfl, rfl, rfl⟩ := h
        exact ⟨[n], rfl, Run.stop ((firstAccept_none_iff _ _ _ _).mp hfa)⟩
      | some r =>
        simp only at h
        cases hx : r.xform x s1 with
        | error e => rw [hx] at h; cases h
        | ok w =>
          obtain ⟨x', s2⟩ := w
          rw [hx] at h
          obtain ⟨q, hq, hrun⟩ := ih r.dst x' s2 (acc ++ [n]) d p s' h
          obtain ⟨pre, post, s0, e, hr, ha⟩ := (firstAccept_some_iff _ _ _ _ _).mp hfa
          refine ⟨n :: q, by rw [hq]; simp, Run.step (Hop.mk pre post r e hr ha hx) hrun⟩

/-- **Completeness**: every maximal run of the reference semantics is what `traverse` returns,
given fuel for its length. -/
theorem run_traverse (g : Graph T D S) :
    ∀ c q res, Run g c q res → ∀ f acc, q.length ≤ f →
      traverse g f c.1 c.2.1 c.2.2 acc = .ok (res.1, acc ++ q, res.2) := by
  intro c q res hrun
  induction hrun with
  | @stop n x s s' hr =>
    intro f acc hf
    cases f with
    | zero => simp at hf
    | succ f =>
      simp only [traverse]
      rw [(firstAccept_none_iff _ _ _ _).mpr hr]
  | @step n x s c' p res hop _ ih =>
    intro f acc hf
    cases f with
    | zero => simp at hf
    | succ f =>
      cases hop with
      | @mk _ _ _ s0 s1 s2 x' pre post r e hr ha hx =>
        simp only [traverse]
        rw [(firstAccept_some_iff _ _ _ _ _).mpr ⟨pre, post, s0, e, hr, ha⟩]
        simp only [hx]
        have := ih f (acc ++ [n]) (by simp at hf; omega)
        simp only at this
        rw [this]
        simp

/-- the reference semantics is deterministic -/
theorem rejects_det {rs : List (Rel T D S)} {x : D} {s a b : S}
    (h1 : Rejects rs x s a) (h2 : Rejects rs x s b) : a = b := by
  induction h1 with
  | nil => cases h2; rfl
  | cons hg _ ih =>
    cases h2 with
    | cons hg' hr' =>
      rw [hg] at hg'
      cases hg'
      exact ih hr'

theorem run_det (g : Graph T D S) {c : T × D × S} {q q' : List T} {r r' : D × S}
    (h1 : Run g c q r) (h2 : Run g c q' r') : q = q' ∧ r = r' := by
  have e1 := run_traverse g c q r h1 (q.length + q'.length) [] (by omega)
  have e2 := run_traverse g c q' r' h2 (q.length + q'.length) [] (by omega)
  rw [e1] at e2
  simp only [List.nil_append, Except.ok.injEq, Prod.mk.injEq] at e2
  obtain ⟨a, b, c⟩ := e2
  exact ⟨b, Prod.ext a c⟩

/-! ### frames (C08) -/

/-- two lists related element by element -/
inductive Forall2 {α β : Type} (R : α → β → Prop) : List α → List β → Prop where
  | nil : Forall2 R [] []
  | cons {a b as bs} : R a b → Forall2 R as bs → Forall2 R (a :: as) (b :: bs)

/-- the result for a whole frame is the column-wise map of the single-column traversal, in column
order, each from the empty path and the empty state -/
theorem traverseFrame_ok {L : Type} (g : Graph T D S) (f : Nat) (root : T) (e : S)
    (cols : List (L × D)) (rs : List (L × (D × List T × S))) :
    traverseFrame g f root e cols = .ok rs ↔
      Forall2 (fun c r => c.1 = r.1 ∧ traverse g f root c.2 e [] = .ok r.2) cols rs := by
  induction cols generalizing rs with
  | nil =>
    simp only [traverseFrame]
    constructor
    · intro h; cases h; exact Forall2.nil
    · intro h; cases h; rfl
  | cons c cols ih =>
    obtain ⟨l, c⟩ := c
    simp only [traverseFrame]
    constructor
    · intro h
      cases ht : traverse g f root c e [] with
      | error err => rw [ht] at h; cases h
      | ok r =>
        rw [ht] at h
        cases hf : traverseFrame g f root e cols with
        | error err => rw [hf] at h; cases h
        | ok rs' =>
          rw [hf] at h
          cases h
          exact Forall2.cons ⟨rfl, ht⟩ ((ih rs').mp hf)
    · intro h
      cases h with
      | @cons _ r _ rs' h1 h2 =>
        obtain ⟨l', r⟩ := r
        obtain ⟨hl, ht⟩ := h1
        simp only at hl ht
        subst hl
        rw [ht, (ih rs').mpr h2]

/-! ### totality lifting (C09) -/

/-- if no guard and no transformer of the graph ever returns an error, the traversal never
returns an error other than fuel exhaustion -/
theorem firstAccept_total (rs : List (Rel T D S)) (x : D) (s : S)
    (hg : ∀ r ∈ rs, ∀ x s, ∃ v, r.guard x s = .ok v) :
    ∃ v, firstAccept rs x s = .ok v ∧ (∀ r, v.1 = some r → r ∈ rs) := by
  induction rs generalizing s with
  | nil => exact ⟨(none, s), rfl, by simp⟩
  | cons r rs ih =>
    obtain ⟨⟨b, s1⟩, hv⟩ := hg r (List.mem_cons_self) x s
    simp only [firstAccept, hv]
    cases b with
    | true => exact ⟨(some r, s1), rfl, by simp⟩
    | false =>
      obtain ⟨v, h1, h2⟩ := ih s1 (fun r hr => hg r (List.mem_cons_of_mem _ hr))
      exact ⟨v, h1, fun r hr => List.mem_cons_of_mem _ (h2 r hr)⟩

theorem traverse_total (g : Graph T D S) (h : T → Nat)
    (hh : ∀ n r, r ∈ g.succ n → h r.dst < h n)
    (hg : ∀ n, ∀ r ∈ g.succ n, ∀ x s, ∃ v, r.guard x s = .ok v)
    (hx : ∀ n, ∀ r ∈ g.succ n, ∀ x s, ∃ v, r.xform x s = .ok v) :
    ∀ f n x s acc, h n < f → ∃ v, traverse g f n x s acc = .ok v := by
  intro f
  induction f with
  | zero => intro n x s acc hf; omega
  | succ f ih =>
    intro n x s acc hf
    obtain ⟨⟨o, s1⟩, hv, hmem⟩ := firstAccept_total (g.succ n) x s (hg n)
    simp only [traverse, hv]
    cases o with
    | none => exact ⟨_, rfl⟩
    | some r =>
      have hr := hmem r rfl
      obtain ⟨⟨x', s2⟩, hxv⟩ := hx n r hr x s1
      simp only [hxv]
      have := hh n r hr
      exact ih r.dst x' s2 (acc ++ [n]) (by omega)


/-! ### totality relative to an invariant (state-free graphs) -/

theorem firstAccept_total_unit (rs : List (Rel T D Unit)) (x : D)
    (hg : ∀ r ∈ rs, ∃ v, r.guard x () = .ok v) :
    ∃ o, firstAccept rs x () = .ok (o, ()) ∧ (∀ r, o = some r → r ∈ rs ∧ r.guard x () = .ok (true, ())) := by
  induction rs with
  | nil => exact ⟨none, rfl, by simp⟩
  | cons r rs ih =>
    obtain ⟨⟨b, u⟩, hv⟩ := hg r List.mem_cons_self
    cases u
    simp only [firstAccept, hv]
    cases b with
    | true => exact ⟨some r, rfl, by intro r' h; cases h; exact ⟨List.mem_cons_self, hv⟩⟩
    | false =>
      obtain ⟨o, h1, h2⟩ := ih (fun r hr => hg r (List.mem_cons_of_mem _ hr))
      exact ⟨o, h1, fun r' hr => ⟨List.mem_cons_of_mem _ (h2 r' hr).1, (h2 r' hr).2⟩⟩

/-- if, at every configuration satisfying an invariant, no guard raises, and every accepting relation's transformer
returns and re-establishes the invariant at its target, the traversal returns normally -/
theorem traverse_total_inv (g : Graph T D Unit) (h : T → Nat) (Inv : T → D → Prop)
    (hh : ∀ n r, r ∈ g.succ n → h r.dst < h n)
    (hg : ∀ n x, Inv n x → ∀ r ∈ g.succ n, ∃ v, r.guard x () = .ok v)
    (hx : ∀ n x, Inv n x → ∀ r ∈ g.succ n, r.guard x () = .ok (true, ()) →
      ∃ x', r.xform x () = .ok (x', ()) ∧ Inv r.dst x') :
    ∀ f n x acc, h n < f → Inv n x → ∃ v, traverse g f n x () acc = .ok v := by
  intro f
  induction f with
  | zero => intro n x acc hf; omega
  | succ f ih =>
    intro n x acc hf hi
    obtain ⟨o, hv, hmem⟩ := firstAccept_total_unit (g.succ n) x (hg n x hi)
    simp only [traverse, hv]
    cases o with
    | none => exact ⟨_, rfl⟩
    | some r =>
      obtain ⟨hr, hacc⟩ := hmem r rfl
      obtain ⟨x', hxv, hi'⟩ := hx n x hi r hr hacc
      simp only [hxv]
      have := hh n r hr
      exact ih r.dst x' (acc ++ [n]) (by omega) hi'

/-! ### sampled traversal (C18) -/

/-- data `x` at node `a` is pushed through exactly the relations leading along `hops`, each of
whose guards accepted the data as it was at that point -/
inductive Through (rel : T → T → Option (Rel T D S)) : T → D → S → List T → D → S → Prop where
  | nil {a x s} : Through rel a x s [] x s
  | cons {a b x s s1 x' s2 rest d s'} (r : Rel T D S) :
      rel a b = some r → r.guard x s = .ok (true, s1) → r.xform x s1 = .ok (x', s2) →
      Through rel b x' s2 rest d s' → Through rel a x s (b :: rest) d s'

theorem through_snoc {rel : T → T → Option (Rel T D S)} {a : T} {x : D} {s : S} {hops : List T}
    {d : D} {s' : S} (h : Through rel a x s hops d s') {b : T} {r : Rel T D S} {s1 : S} {d' : D} {s2 : S}
    (hr : rel ((a :: hops).getLast (by simp)) b = some r)
    (hg : r.guard d s' = .ok (true, s1)) (hx : r.xform d s1 = .ok (d', s2)) :
    Through rel a x s (hops ++ [b]) d' s2 := by
  induction h with
  | nil => exact Through.cons r (by simpa using hr) hg hx Through.nil
  | @cons a b0 x s s1' x' s2' rest d s' r0 h1 h2 h3 _ ih =>
    refine Through.cons r0 h1 h2 h3 (ih ?_ hg hx)
    simpa [List.getLast_cons] using hr

/-- invariant of `replayPath`: whatever it returns extends the validated path by hops that were
all accepted on the full data, and the remaining (unvalidated) hops are dropped -/
theorem replayPath_through (rel : T → T → Option (Rel T D S)) :
    ∀ (todo : List T) (from_ : T) (x : D) (s : S) (acc : List T) (d : D) (p : List T) (s' : S),
      replayPath rel from_ todo x s acc = .ok (d, p, s') →
      ∃ done sEnd, p = acc ++ done ∧ done <+: todo ∧ Through rel from_ x s done d sEnd := by
  intro todo
  induction todo with
  | nil =>
    intro from_ x s acc d p s' h
    simp only [replayPath, Except.ok.injEq, Prod.mk.injEq] at h
    obtain ⟨rfl, rfl, rfl⟩ := h
    exact ⟨[], s, by simp, List.prefix_refl _, Through.nil⟩
  | cons to rest ih =>
    intro from_ x s acc d p s' h
    simp only [replayPath] at h
    cases hr : rel from_ to with
    | none => rw [hr] at h; cases h
    | some r =>
      rw [hr] at h
      simp only at h
      cases hg : r.guard x s with
      | error e => rw [hg] at h; cases h
      | ok v =>
        obtain ⟨b, s1⟩ := v
        rw [hg] at h
        cases b with
        | false =>
          simp only [Except.ok.injEq, Prod.mk.injEq] at h
          obtain ⟨rfl, rfl, rfl⟩ := h
          exact ⟨[], s, by simp, List.nil_prefix, Through.nil⟩
        | true =>
          simp only at h
          cases hx : r.xform x s1 with
          | error e => rw [hx] at h; cases h
          | ok w =>
            obtain ⟨x', s2⟩ := w
            rw [hx] at h
            obtain ⟨done, sEnd, hp, hpre, hth⟩ := ih to x' s2 (acc ++ [to]) d p s' h
            refine ⟨to :: done, sEnd, by rw [hp]; simp, ?_, Through.cons r hr hg hx hth⟩
            exact List.cons_prefix_cons.mpr ⟨rfl, hpre⟩

/-- membership is preserved along `Through` when every accepted relation lands in its target -/
theorem through_lands (rel : T → T → Option (Rel T D S)) (contains : T → D → Prop)
    (lands : ∀ a b r x s s1 x' s2, rel a b = some r → contains a x → r.guard x s = .ok (true, s1) →
      r.xform x s1 = .ok (x', s2) → contains b x')
    {a : T} {x : D} {s : S} {hops : List T} {d : D} {s' : S}
    (h : Through rel a x s hops d s') (hc : contains a x) :
    contains ((a :: hops).getLast (by simp)) d := by
  induction h with
  | nil => simpa using hc
  | @cons a b x s s1 x' s2 rest d s' r h1 h2 h3 _ ih =>
    have := ih (lands a b r x s s1 x' s2 h1 hc h2 h3)
    simpa [List.getLast_cons] using this

end V

namespace V
variable {T D : Type}

/-! ### from the full engine to the pure engine: a traversal that returned normally is the pure
traversal of the "purified" graph (a guard that raised counts as rejecting — but since the full
traversal did not raise, no such guard was evaluated on the way) -/

def purifyRel (r : Rel T D Unit) : PRel T D :=
  { src := r.src, dst := r.dst, inferential := r.inferential,
    guard := fun x => match r.guard x () with | .ok (b, _) => b | .error _ => false,
    xform := fun x => match r.xform x () with | .ok (y, _) => y | .error _ => x }

def purify (g : Graph T D Unit) : T → List (PRel T D) := fun n => (g.succ n).map purifyRel

theorem firstAccept_ok_pure (rs : List (Rel T D Unit)) (x : D) (o : Option (Rel T D Unit))
    (h : firstAccept rs x () = .ok (o, ())) : pfirst (rs.map purifyRel) x = o.map purifyRel := by
  induction rs with
  | nil => simp only [firstAccept, Except.ok.injEq, Prod.mk.injEq] at h; rw [← h.1]; rfl
  | cons r rs ih =>
    simp only [firstAccept] at h
    simp only [List.map_cons, pfirst, List.find?_cons]
    cases hg : r.guard x () with
    | error e => rw [hg] at h; cases h
    | ok v =>
      obtain ⟨b, u⟩ := v
      rw [hg] at h
      have hgp : (purifyRel r).guard x = b := by simp [purifyRel, hg]
      cases b with
      | true =>
        simp only [Except.ok.injEq, Prod.mk.injEq] at h
        rw [← h.1]; simp [hgp]
      | false =>
        simp only [hgp]
        exact ih h

theorem traverse_ok_pure (g : Graph T D Unit) :
    ∀ f n x acc d p, traverse g f n x () acc = .ok (d, p, ()) →
      ∃ q, p = acc ++ q ∧ ptraverse (purify g) f n x = (d, q) := by
  intro f
  induction f with
  | zero => intro n x acc d p h; simp [traverse] at h
  | succ f ih =>
    intro n x acc d p h
    simp only [traverse] at h
    cases hfa : firstAccept (g.succ n) x () with
    | error e => rw [hfa] at h; cases h
    | ok v =>
      obtain ⟨o, u⟩ := v
      rw [hfa] at h
      have hp := firstAccept_ok_pure (g.succ n) x o hfa
      simp only [ptraverse, purify]
      cases o with
      | none =>
        simp only [Except.ok.injEq, Prod.mk.injEq] at h
        obtain ⟨rfl, rfl, _⟩ := h
        rw [hp]
        exact ⟨[n], rfl, rfl⟩
      | some r =>
        simp only at h
        cases hx : r.xform x () with
        | error e => rw [hx] at h; cases h
        | ok w =>
          obtain ⟨x', u'⟩ := w
          rw [hx] at h
          obtain ⟨q, hq, hpt⟩ := ih r.dst x' (acc ++ [n]) d p h
          rw [hp]
          have hxp : (purifyRel r).xform x = x' := by simp [purifyRel, hx]
          refine ⟨n :: q, by rw [hq]; simp, ?_⟩
          simp only [Option.map_some]
          have e1 : (purifyRel r).dst = r.dst := rfl
          rw [hxp, e1]
          rw [hpt]

/-- pairwise exclusivity of accepting relations with distinct targets bounds the accepting set by one -/
theorem filter_le_one_of_pairwise {α β : Type} [DecidableEq β] (l : List α) (p : α → Bool) (key : α → β)
    (hnd : (l.map key).Nodup) (h : ∀ a ∈ l, ∀ b ∈ l, p a = true → p b = true → key a = key b) :
    (l.filter p).length ≤ 1 := by
  induction l with
  | nil => simp
  | cons a l ih =>
    rw [List.map_cons, List.nodup_cons] at hnd
    obtain ⟨hna, hnl⟩ := hnd
    simp only [List.filter_cons]
    by_cases hpa : p a = true
    · simp only [hpa, if_true, List.length_cons]
      have : l.filter p = [] := by
        rw [List.filter_eq_nil_iff]
        intro b hb hpb
        have := h a List.mem_cons_self b (List.mem_cons_of_mem _ hb) hpa hpb
        exact hna (by rw [this]; exact List.mem_map_of_mem hb)
      simp [this]
    · simp only [hpa, Bool.false_eq_true, if_false]
      exact ih hnl (fun x hx y hy => h x (List.mem_cons_of_mem _ hx) y (List.mem_cons_of_mem _ hy))

end V

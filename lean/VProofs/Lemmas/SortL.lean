/-
  Insertion sort by a `Nat` key (VModel.Graph.sortBy): the result is a sorted permutation, hence
  the same list for every permutation of the input when the key is injective on it (C19).
-/
import VModel.Graph
namespace V

variable {α : Type}

theorem insertSorted_perm (key : α → Nat) (x : α) (l : List α) : (insertSorted key x l).Perm (x :: l) := by
  induction l with
  | nil => exact List.Perm.refl _
  | cons y ys ih =>
    simp only [insertSorted]
    split
    · exact List.Perm.refl _
    · exact (List.Perm.cons y ih).trans (List.Perm.swap x y ys)

theorem sortBy_perm (key : α → Nat) (l : List α) : (sortBy key l).Perm l := by
  induction l with
  | nil => exact List.Perm.refl _
  | cons x xs ih =>
    simp only [sortBy, List.foldr_cons]
    exact (insertSorted_perm key x _).trans (List.Perm.cons x ih)

theorem insertSorted_pairwise (key : α → Nat) (x : α) (l : List α)
    (h : l.Pairwise (fun a b => key a ≤ key b)) :
    (insertSorted key x l).Pairwise (fun a b => key a ≤ key b) := by
  induction l with
  | nil => simp [insertSorted]
  | cons y ys ih =>
    have ⟨hy, hys⟩ := List.pairwise_cons.mp h
    simp only [insertSorted]
    split
    · rename_i hxy
      refine List.pairwise_cons.mpr ⟨?_, h⟩
      intro b hb
      rcases List.mem_cons.mp hb with rfl | hb
      · exact hxy
      · exact Nat.le_trans hxy (hy b hb)
    · rename_i hxy
      refine List.pairwise_cons.mpr ⟨?_, ih hys⟩
      intro b hb
      have := (insertSorted_perm key x ys).subset hb
      rcases List.mem_cons.mp this with rfl | hb
      · omega
      · exact hy b hb

theorem sortBy_pairwise (key : α → Nat) (l : List α) :
    (sortBy key l).Pairwise (fun a b => key a ≤ key b) := by
  induction l with
  | nil => simp [sortBy]
  | cons x xs ih => simp only [sortBy, List.foldr_cons]; exact insertSorted_pairwise key x _ ih

/-- sorting is insensitive to the order of the input when keys identify elements -/
theorem sortBy_eq_of_perm (key : α → Nat) (hinj : ∀ a b, key a = key b → a = b)
    {l₁ l₂ : List α} (h : l₁.Perm l₂) : sortBy key l₁ = sortBy key l₂ := by
  apply List.Perm.eq_of_pairwise (le := fun a b => key a ≤ key b)
  · intro a b _ _ h1 h2; exact hinj a b (Nat.le_antisymm h1 h2)
  · exact sortBy_pairwise key l₁
  · exact sortBy_pairwise key l₂
  · exact (sortBy_perm key l₁).trans (h.trans (sortBy_perm key l₂).symm)

theorem mem_sortBy (key : α → Nat) (l : List α) (a : α) : a ∈ sortBy key l ↔ a ∈ l :=
  (sortBy_perm key l).mem_iff

end V

/-
  Sub-typesets: restriction of a type system to a parent-closed set of types keeps it well
  formed; the traversal of the smaller typeset is a prefix of the traversal of the larger (C15);
  detection is sound and most specific from L0 alone (C01).
-/
import VProofs.Lemmas.Pure
namespace V

variable {T D : Type}

/-! ### fuel irrelevance -/

theorem ptraverse_fuel (s : T → List (PRel T D)) (h : T → Nat)
    (hh : ∀ n r, r ∈ s n → h r.dst < h n) :
    ∀ f f' n x, h n < f → h n < f' → ptraverse s f n x = ptraverse s f' n x := by
  intro f
  induction f with
  | zero => intro f' n x h1; omega
  | succ f ih =>
    intro f' n x h1 h2
    cases f' with
    | zero => omega
    | succ f' =>
      simp only [ptraverse]
      cases hfa : pfirst (s n) x with
      | none => rfl
      | some r =>
        have hmem : r ∈ s n := List.mem_of_find?_eq_some hfa
        have := hh n r hmem
        simp only [ih f' r.dst (r.xform x) (by omega) (by omega)]

theorem path_height (s : T → List (PRel T D)) (h : T → Nat)
    (hh : ∀ n r, r ∈ s n → h r.dst < h n) :
    ∀ f n x, ∀ t ∈ (ptraverse s f n x).2, h t ≤ h n := by
  intro f
  induction f with
  | zero => intro n x t ht; simp [ptraverse] at ht; rw [ht]; exact Nat.le_refl _
  | succ f ih =>
    intro n x t ht
    simp only [ptraverse] at ht
    cases hfa : pfirst (s n) x with
    | none => rw [hfa] at ht; simp at ht; rw [ht]; exact Nat.le_refl _
    | some r =>
      rw [hfa] at ht
      have hmem : r ∈ s n := List.mem_of_find?_eq_some hfa
      have := hh n r hmem
      cases ht with
      | head => exact Nat.le_refl _
      | tail _ ht => have := ih r.dst (r.xform x) t ht; omega

theorem plast_mem (d : T) (p : List T) (h : p ≠ []) : plast d p ∈ p := by
  simp only [plast]
  cases hl : p.getLast? with
  | none => exact absurd (List.getLast?_eq_none_iff.mp hl) h
  | some v => exact List.mem_of_getLast? hl

/-! ### restriction -/

/-- The typeset cut out of `ts` by the set of types `S`: relations whose target is in `S`
(relations whose *source* is absent are dropped by `build_graph`; from a node in `S` the
remaining ones are exactly those with target in `S`). -/
def TS.restrict (ts : TS T D) (S : T → Bool) : TS T D :=
  { ts with succ := fun n => (ts.succ n).filter (fun r => S r.dst) }

/-- `S` is parent closed: the identity parent of a member is a member. -/
def ParentClosed (ts : TS T D) (S : T → Bool) : Prop :=
  ∀ n r, r ∈ ts.idSucc n → S r.dst = true → S n = true

theorem mem_restrict_succ {ts : TS T D} {S : T → Bool} {n : T} {r : PRel T D} :
    r ∈ (ts.restrict S).succ n ↔ r ∈ ts.succ n ∧ S r.dst = true := by
  simp [TS.restrict, List.mem_filter]

theorem TS.WF.restrict {ts : TS T D} {I : D → Prop} (wf : ts.WF I) (S : T → Bool) : (ts.restrict S).WF I where
  height := fun n r hr => wf.height n r (mem_restrict_succ.mp hr).1
  idGuard := fun n r hr hi => wf.idGuard n r (mem_restrict_succ.mp hr).1 hi
  nested := fun n r hr hi => wf.nested n r (mem_restrict_succ.mp hr).1 hi
  mutex := fun n x hI hc =>
    Nat.le_trans ((List.Sublist.filter _ List.filter_sublist).length_le) (wf.mutex n x hI hc)
  lands := fun n r x hr hI hc hg => wf.lands n r x (mem_restrict_succ.mp hr).1 hI hc hg
  closed := fun n r x hr hI hc hg => wf.closed n r x (mem_restrict_succ.mp hr).1 hI hc hg

theorem idpath_closed {ts : TS T D} {S : T → Bool} (pc : ParentClosed ts S) {a b : T}
    (hp : IdPath ts a b) (hb : S b = true) : S a = true := by
  induction hp with
  | refl => exact hb
  | step r hr _ ih => exact pc _ r hr (ih hb)

theorem idpath_restrict {ts : TS T D} {S : T → Bool} (pc : ParentClosed ts S) {a b : T}
    (hp : IdPath ts a b) (hb : S b = true) : IdPath (ts.restrict S) a b := by
  induction hp with
  | refl => exact IdPath.refl _
  | step r hr hrest ih =>
    have hS : S r.dst = true := idpath_closed pc hrest hb
    have ⟨hm, hi⟩ := mem_idSucc.mp hr
    exact IdPath.step r (mem_idSucc.mpr ⟨mem_restrict_succ.mpr ⟨hm, hS⟩, hi⟩) (ih hb)

/-- the identity-only system of a well-formed system is well formed (used to apply the
inference lemmas to detection) -/
theorem TS.WF.idOnly {ts : TS T D} {I : D → Prop} (wf : ts.WF I) : ts.idOnly.WF I where
  height := fun n r hr => wf.height n r (mem_idSucc.mp hr).1
  idGuard := fun n r hr hi => wf.idGuard n r (mem_idSucc.mp hr).1 hi
  nested := fun n r hr hi => wf.nested n r (mem_idSucc.mp hr).1 hi
  mutex := fun n x hI hc => Nat.le_trans (idSucc_filter_le ts n x) (wf.mutex n x hI hc)
  lands := fun n r x hr hI hc hg => wf.lands n r x (mem_idSucc.mp hr).1 hI hc hg
  closed := fun n r x hr hI hc hg => wf.closed n r x (mem_idSucc.mp hr).1 hI hc hg

/-! ### C01: detection is sound and most specific — needs L0 only -/

/-- consecutive elements of a path are related by `R` -/
def Linked (R : T → T → Prop) : List T → Prop
  | [] => True
  | [_] => True
  | a :: b :: rest => R a b ∧ Linked R (b :: rest)

/-- L0 alone (no nestedness, no exclusivity, no acyclicity): identity relations test the
target's membership and do not change the data. -/
def TS.L0 (ts : TS T D) : Prop :=
  ∀ n r, r ∈ ts.succ n → r.inferential = false →
    (∀ x, r.guard x = ts.contains r.dst x) ∧ (∀ x, r.xform x = x)

theorem detect_sound (ts : TS T D) (l0 : ts.L0) :
    ∀ f n x, ts.contains n x = true →
      let res := ptraverse ts.idSucc f n x
      res.1 = x ∧
      res.2.head? = some n ∧
      (∀ t ∈ res.2, ts.contains t x = true) ∧
      Linked (fun a b => ∃ r ∈ ts.idSucc a, r.dst = b) res.2 := by
  intro f
  induction f with
  | zero => intro n x hc; simp [ptraverse, hc, Linked]
  | succ f ih =>
    intro n x hc
    simp only [ptraverse]
    cases hfa : pfirst (ts.idSucc n) x with
    | none => simp [hc, Linked]
    | some r =>
      have hmem : r ∈ ts.idSucc n := List.mem_of_find?_eq_some hfa
      have hg : r.guard x = true := by have := List.find?_some hfa; simpa using this
      have ⟨hm, hi⟩ := mem_idSucc.mp hmem
      have ⟨hgc, hx⟩ := l0 n r hm hi
      have hc' : ts.contains r.dst x = true := by rw [← hgc]; exact hg
      have ⟨h1, h2, h3, h4⟩ := ih r.dst x hc'
      simp only [hx]
      refine ⟨h1, rfl, ?_, ?_⟩
      · intro t ht
        cases ht with
        | head => exact hc
        | tail _ ht => exact h3 t ht
      · match hp : (ptraverse ts.idSucc f r.dst x).2, h2, h4 with
        | [], h2, _ => simp at h2
        | b :: rest, h2, h4 =>
          simp at h2
          exact ⟨⟨r, hmem, h2.symm⟩, h4⟩

/-- most specific: when the walk stops with enough fuel, no identity child of the reported type
contains the data -/
theorem detect_most_specific (ts : TS T D) (l0 : ts.L0)
    (hh : ∀ n r, r ∈ ts.succ n → ts.h r.dst < ts.h n) :
    ∀ f n x, ts.h n < f →
      let res := ptraverse ts.idSucc f n x
      ∀ r ∈ ts.idSucc (plast n res.2), ts.contains r.dst x = false := by
  intro f
  induction f with
  | zero => intro n x h; omega
  | succ f ih =>
    intro n x hf
    simp only [ptraverse]
    cases hfa : pfirst (ts.idSucc n) x with
    | none =>
      intro r hr
      simp only [plast, List.getLast?_singleton, Option.getD_some] at hr
      have ⟨hm, hi⟩ := mem_idSucc.mp hr
      have ⟨hgc, _⟩ := l0 n r hm hi
      rw [← hgc]
      have := List.find?_eq_none.mp hfa r hr
      simpa using this
    | some r =>
      have hmem : r ∈ ts.idSucc n := List.mem_of_find?_eq_some hfa
      have ⟨hm, hi⟩ := mem_idSucc.mp hmem
      have ⟨_, hx⟩ := l0 n r hm hi
      have hlt := hh n r hm
      simp only
      rw [plast_cons_of_ne_nil _ _ _ (ptraverse_path_ne_nil _ _ _ _)]
      rw [plast_irrel n r.dst _ (ptraverse_path_ne_nil _ _ _ _)]
      rw [hx]
      exact ih r.dst x (by omega)

/-! ### C15: refinement -/

/-- Walking in `B` from a node outside the parent-closed set `A` never re-enters `A`. -/
theorem walk_outside (ts : TS T D) (A : T → Bool) (pc : ParentClosed ts A) :
    ∀ f n x, A n = false → ∀ t ∈ (ptraverse ts.idSucc f n x).2, A t = false := by
  intro f
  induction f with
  | zero => intro n x hn t ht; simp [ptraverse] at ht; rw [ht]; exact hn
  | succ f ih =>
    intro n x hn t ht
    simp only [ptraverse] at ht
    cases hfa : pfirst (ts.idSucc n) x with
    | none => rw [hfa] at ht; simp at ht; rw [ht]; exact hn
    | some r =>
      rw [hfa] at ht
      have hmem : r ∈ ts.idSucc n := List.mem_of_find?_eq_some hfa
      have hr : A r.dst = false := by
        cases h : A r.dst with
        | false => rfl
        | true => have := pc n r hmem h; rw [hn] at this; cases this
      cases ht with
      | head => exact hn
      | tail _ ht => exact ih r.dst (r.xform x) hr t ht

theorem restrict_idSucc (ts : TS T D) (A : T → Bool) (n : T) :
    (ts.restrict A).idSucc n = (ts.idSucc n).filter (fun r => A r.dst) := by
  simp only [TS.idSucc, pbase, TS.restrict, List.filter_filter]
  congr 1; funext r; exact Bool.and_comm _ _

/-- first accepting relation of the restricted list, when there is one, is the first accepting
relation of the full list — provided at most one relation of the full list accepts -/
theorem pfirst_filter_some {l : List (PRel T D)} {q : PRel T D → Bool} {x : D} {r : PRel T D}
    (h : pfirst (l.filter q) x = some r) (h1 : (l.filter (·.guard x)).length ≤ 1) :
    pfirst l x = some r := by
  have hmem : r ∈ l.filter q := List.mem_of_find?_eq_some h
  have hg : r.guard x = true := by have := List.find?_some h; simpa using this
  exact find?_unique_dst _ l r (List.mem_filter.mp hmem).1 hg h1

/-- **Refinement for inference**: the walk of the smaller typeset `A` is a prefix of the walk of
the larger typeset with the same data along it, and the larger walk continues from where the
smaller one stopped. -/
theorem infer_refines (ts : TS T D) {I : D → Prop} (wf : ts.WF I) (A : T → Bool) :
    ∀ f n x, ts.h n < f → I x → ts.contains n x = true →
      let rA := ptraverse (ts.restrict A).succ f n x
      let rB := ptraverse ts.succ f n x
      rA.2 <+: rB.2 ∧
      ptraverse ts.succ f (plast n rA.2) rA.1 =
        (rB.1, rB.2.drop (rA.2.length - 1)) := by
  intro f
  induction f with
  | zero => intro n x h; omega
  | succ f ih =>
    intro n x hf hI hc
    cases hfa : pfirst ((ts.restrict A).succ n) x with
    | none =>
      simp only [ptraverse, hfa]
      refine ⟨?_, ?_⟩
      · cases pfirst (ts.succ n) x <;> simp
      · simp [plast]
    | some r =>
      have hB : pfirst (ts.succ n) x = some r := pfirst_filter_some hfa (wf.mutex n x hI hc)
      have hmem : r ∈ ts.succ n := List.mem_of_find?_eq_some hB
      have hg : r.guard x = true := by have := List.find?_some hB; simpa using this
      have hlt := wf.height n r hmem
      have hc' := wf.lands n r x hmem hI hc hg
      have ⟨ih1, ih2⟩ := ih r.dst (r.xform x) (by omega) (wf.closed n r x hmem hI hc hg) hc'
      simp only [ptraverse, hfa, hB]
      refine ⟨by simpa using ih1, ?_⟩
      rw [plast_cons_of_ne_nil _ _ _ (ptraverse_path_ne_nil _ _ _ _)]
      rw [plast_irrel n r.dst _ (ptraverse_path_ne_nil _ _ _ _)]
      -- fuel f+1 versus f at the stop point: both exceed its height
      have hne := ptraverse_path_ne_nil (ts.restrict A).succ f r.dst (r.xform x)
      have hlen : 0 < (ptraverse (ts.restrict A).succ f r.dst (r.xform x)).2.length :=
        List.length_pos_iff.mpr hne
      have hdrop : (n :: (ptraverse ts.succ f r.dst (r.xform x)).2).drop
            ((n :: (ptraverse (ts.restrict A).succ f r.dst (r.xform x)).2).length - 1)
          = (ptraverse ts.succ f r.dst (r.xform x)).2.drop
            ((ptraverse (ts.restrict A).succ f r.dst (r.xform x)).2.length - 1) := by
        simp only [List.length_cons]
        have : (ptraverse (ts.restrict A).succ f r.dst (r.xform x)).2.length + 1 - 1
            = ((ptraverse (ts.restrict A).succ f r.dst (r.xform x)).2.length - 1) + 1 := by omega
        rw [this, List.drop_succ_cons]
      rw [hdrop, ← ih2]
      -- the stop node lies on A's path from r.dst, whose heights are at most h r.dst < f
      have hmemA := plast_mem r.dst _ hne
      have hle := path_height (ts.restrict A).succ ts.h (wf.restrict A).height f r.dst (r.xform x) _ hmemA
      exact ptraverse_fuel ts.succ ts.h wf.height (f + 1) f _ _ (by omega) (by omega)

end V

namespace V
variable {T D : Type}

/-- **Refinement for detection**: the detection path of the smaller parent-closed typeset `A`
is a prefix of that of the larger one, consists of members of `A`, and no later type on the
larger path belongs to `A` — so `detect_A(x)` is the deepest type of `B`'s path that lies in `A`. -/
theorem detect_refines (ts : TS T D) {I : D → Prop} (wf : ts.WF I) (A : T → Bool) (pc : ParentClosed ts A) :
    ∀ f n x, ts.h n < f → I x → ts.contains n x = true → A n = true →
      let pA := (ptraverse (ts.restrict A).idSucc f n x).2
      let pB := (ptraverse ts.idSucc f n x).2
      pA <+: pB ∧ (∀ t ∈ pB, A t = true → t ∈ pA) ∧ (∀ t ∈ pA, A t = true) := by
  intro f
  induction f with
  | zero => intro n x h; omega
  | succ f ih =>
    intro n x hf hI hc hn
    have wfi := wf.idOnly
    cases hfa : pfirst ((ts.restrict A).idSucc n) x with
    | none =>
      simp only [ptraverse, hfa]
      cases hfb : pfirst (ts.idSucc n) x with
      | none => simp [hn]
      | some r =>
        have hmem : r ∈ ts.idSucc n := List.mem_of_find?_eq_some hfb
        have hg : r.guard x = true := by have := List.find?_some hfb; simpa using this
        have hr : A r.dst = false := by
          cases h : A r.dst with
          | false => rfl
          | true =>
            have hin : r ∈ (ts.restrict A).idSucc n := by
              rw [restrict_idSucc]; exact List.mem_filter.mpr ⟨hmem, h⟩
            have := List.find?_eq_none.mp hfa r hin
            simp [hg] at this
        refine ⟨by simp, ?_, by simp [hn]⟩
        intro t ht hAt
        cases ht with
        | head => simp
        | tail _ ht =>
          have := walk_outside ts A pc f r.dst (r.xform x) hr t ht
          rw [hAt] at this; cases this
    | some r =>
      have hfa' : pfirst ((ts.idSucc n).filter (fun r => A r.dst)) x = some r := by
        rw [← restrict_idSucc]; exact hfa
      have hB : pfirst (ts.idSucc n) x = some r :=
        pfirst_filter_some hfa' (wfi.mutex n x hI hc)
      have hmemA : r ∈ (ts.idSucc n).filter (fun r => A r.dst) := List.mem_of_find?_eq_some hfa'
      have hAr : A r.dst = true := by have := (List.mem_filter.mp hmemA).2; simpa using this
      have hmem : r ∈ ts.idSucc n := List.mem_of_find?_eq_some hB
      have hg : r.guard x = true := by have := List.find?_some hB; simpa using this
      have hlt := wf.height n r (mem_idSucc.mp hmem).1
      have hc' := wfi.lands n r x hmem hI hc hg
      have ⟨ih1, ih2, ih3⟩ := ih r.dst (r.xform x) (by omega) (wfi.closed n r x hmem hI hc hg) hc' hAr
      simp only [ptraverse, hfa, hB]
      refine ⟨by simpa using ih1, ?_, ?_⟩
      · intro t ht hAt
        cases ht with
        | head => simp
        | tail _ ht => exact List.mem_cons_of_mem _ (ih2 t ht hAt)
      · intro t ht
        cases ht with
        | head => exact hn
        | tail _ ht => exact ih3 t ht

end V

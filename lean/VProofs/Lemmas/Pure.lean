/-
  Lemmas about the pure engine `ptraverse` (VModel.Engine): order independence under mutual
  exclusion, soundness of inference, detection of a maximal datum follows the identity chain,
  refinement between nested typesets.
-/
import VModel.Engine
namespace V

variable {T D : Type}

/-! ### `find?` under permutation -/

theorem find?_eq_of_perm_of_le_one {α : Type} (p : α → Bool) {l₁ l₂ : List α}
    (h : l₁.Perm l₂) (h1 : (l₁.filter p).length ≤ 1) : l₁.find? p = l₂.find? p := by
  induction h with
  | nil => rfl
  | cons x _ ih =>
    by_cases hx : p x
    · simp [hx]
    · simp only [List.find?_cons, hx]
      apply ih
      simpa [List.filter_cons, hx] using h1
  | swap x y l =>
    by_cases hx : p x <;> by_cases hy : p y <;> simp_all
  | trans h₁ _ ih₁ ih₂ =>
    rw [ih₁ h1]
    apply ih₂
    rw [← (h₁.filter p).length_eq]; exact h1

/-- A pure type system: adjacency, membership, a height that decreases along relations. -/
structure TS (T D : Type) where
  succ : T → List (PRel T D)
  contains : T → D → Bool
  h : T → Nat

def TS.idSucc (ts : TS T D) : T → List (PRel T D) := pbase ts.succ

/-- `A` is an identity-ancestor of `B` (reflexive): a chain of identity relations leads from `A` to `B`. -/
inductive IdPath (ts : TS T D) : T → T → Prop where
  | refl (a : T) : IdPath ts a a
  | step {a b : T} (r : PRel T D) : r ∈ ts.idSucc a → IdPath ts r.dst b → IdPath ts a b

/-- The local obligations (DESIGN §2) packaged for one type system, relative to an invariant `I`
on data (the well-formedness / library hypotheses under which the obligations hold; `fun _ => True`
when none are needed).  `closed` says accepted transformers keep the invariant. -/
structure TS.WF (ts : TS T D) (I : D → Prop) : Prop where
  /-- acyclic: the height decreases along every relation (C14) -/
  height : ∀ n r, r ∈ ts.succ n → ts.h r.dst < ts.h n
  /-- L0: an identity relation's guard is the target's `contains`, its transformer the identity -/
  idGuard : ∀ n r, r ∈ ts.succ n → r.inferential = false →
      (∀ x, r.guard x = ts.contains r.dst x) ∧ (∀ x, r.xform x = x)
  /-- L1: membership is upward closed along identity relations (C16) -/
  nested : ∀ n r, r ∈ ts.succ n → r.inferential = false → ∀ x, I x → ts.contains r.dst x → ts.contains n x
  /-- L2: at most one outgoing relation accepts a member (C02) -/
  mutex : ∀ n x, I x → ts.contains n x → ((ts.succ n).filter (·.guard x)).length ≤ 1
  /-- L3: an accepted inference relation lands inside its target (C03) -/
  lands : ∀ n r x, r ∈ ts.succ n → I x → ts.contains n x → r.guard x = true → ts.contains r.dst (r.xform x)
  /-- the invariant is kept by every accepted transformer -/
  closed : ∀ n r x, r ∈ ts.succ n → I x → ts.contains n x → r.guard x = true → I (r.xform x)

theorem mem_idSucc {ts : TS T D} {n : T} {r : PRel T D} :
    r ∈ ts.idSucc n ↔ r ∈ ts.succ n ∧ r.inferential = false := by
  simp [TS.idSucc, pbase, List.mem_filter]

/-! ### order independence (C02) -/

/-- If every adjacency list of `s₂` is a permutation of that of `s₁` and at most one relation
accepts at every configuration *visited*, both traversals coincide.  The exclusivity hypothesis is
stated for members (`contains n x`), and `lands`-style closure keeps the walk inside members. -/
theorem ptraverse_perm (s₁ s₂ : T → List (PRel T D)) (inv : T → D → Prop)
    (hp : ∀ n, (s₁ n).Perm (s₂ n))
    (hm : ∀ n x, inv n x → ((s₁ n).filter (·.guard x)).length ≤ 1)
    (hstep : ∀ n x r, inv n x → r ∈ s₁ n → r.guard x = true → inv r.dst (r.xform x)) :
    ∀ f n x, inv n x → ptraverse s₁ f n x = ptraverse s₂ f n x := by
  intro f
  induction f with
  | zero => intro n x _; rfl
  | succ f ih =>
    intro n x hi
    have hf : pfirst (s₁ n) x = pfirst (s₂ n) x :=
      find?_eq_of_perm_of_le_one _ (hp n) (hm n x hi)
    simp only [ptraverse, ← hf]
    cases hfa : pfirst (s₁ n) x with
    | none => rfl
    | some r =>
      have hmem : r ∈ s₁ n := List.mem_of_find?_eq_some hfa
      have hg : r.guard x = true := by
        have := List.find?_some hfa; simpa using this
      simp only [ih r.dst (r.xform x) (hstep n x r hi hmem hg)]

/-- the same, with the permutation required only at visited configurations -/
theorem ptraverse_perm_on (s₁ s₂ : T → List (PRel T D)) (inv : T → D → Prop)
    (hp : ∀ n x, inv n x → (s₁ n).Perm (s₂ n))
    (hm : ∀ n x, inv n x → ((s₁ n).filter (·.guard x)).length ≤ 1)
    (hstep : ∀ n x r, inv n x → r ∈ s₁ n → r.guard x = true → inv r.dst (r.xform x)) :
    ∀ f n x, inv n x → ptraverse s₁ f n x = ptraverse s₂ f n x := by
  intro f
  induction f with
  | zero => intro n x _; rfl
  | succ f ih =>
    intro n x hi
    have hf : pfirst (s₁ n) x = pfirst (s₂ n) x :=
      find?_eq_of_perm_of_le_one _ (hp n x hi) (hm n x hi)
    simp only [ptraverse, ← hf]
    cases hfa : pfirst (s₁ n) x with
    | none => rfl
    | some r =>
      have hmem : r ∈ s₁ n := List.mem_of_find?_eq_some hfa
      have hg : r.guard x = true := by
        have := List.find?_some hfa; simpa using this
      simp only [ih r.dst (r.xform x) (hstep n x r hi hmem hg)]

/-! ### basic facts about `ptraverse` -/

theorem ptraverse_path_ne_nil (s : T → List (PRel T D)) (f : Nat) (n : T) (x : D) :
    (ptraverse s f n x).2 ≠ [] := by
  cases f with
  | zero => simp [ptraverse]
  | succ f =>
    simp only [ptraverse]
    cases pfirst (s n) x <;> simp

theorem ptraverse_head (s : T → List (PRel T D)) (f : Nat) (n : T) (x : D) :
    (ptraverse s f n x).2.head? = some n := by
  cases f with
  | zero => simp [ptraverse]
  | succ f =>
    simp only [ptraverse]
    cases pfirst (s n) x <;> simp

/-- last element of the reported path -/
def plast (d : T) (p : List T) : T := p.getLast?.getD d

theorem plast_cons_of_ne_nil (d n : T) (p : List T) (h : p ≠ []) : plast d (n :: p) = plast n p := by
  cases p with
  | nil => exact absurd rfl h
  | cons a as =>
    simp only [plast, List.getLast?_cons_cons]
    cases hl : (a :: as).getLast? with
    | none => simp at hl
    | some v => rfl

theorem plast_irrel (d d' : T) (p : List T) (h : p ≠ []) : plast d p = plast d' p := by
  cases p with
  | nil => exact absurd rfl h
  | cons a as =>
    simp only [plast]
    cases hl : (a :: as).getLast? with
    | none => simp at hl
    | some v => rfl

/-! ### inference lands in its last type and stops for a reason (C03, first half) -/

theorem infer_lands (ts : TS T D) {I : D → Prop} (wf : ts.WF I) :
    ∀ f n x, ts.h n < f → I x → ts.contains n x = true →
      let res := ptraverse ts.succ f n x
      ts.contains (plast n res.2) res.1 = true ∧ pfirst (ts.succ (plast n res.2)) res.1 = none ∧ I res.1 := by
  intro f
  induction f with
  | zero => intro n x h; omega
  | succ f ih =>
    intro n x hh hI hc
    simp only [ptraverse]
    cases hfa : pfirst (ts.succ n) x with
    | none => simp [plast, hc, hfa, hI]
    | some r =>
      have hmem : r ∈ ts.succ n := List.mem_of_find?_eq_some hfa
      have hg : r.guard x = true := by have := List.find?_some hfa; simpa using this
      have hlt := wf.height n r hmem
      have hc' := wf.lands n r x hmem hI hc hg
      have := ih r.dst (r.xform x) (by omega) (wf.closed n r x hmem hI hc hg) hc'
      simp only
      rw [plast_cons_of_ne_nil _ _ _ (ptraverse_path_ne_nil _ _ _ _)]
      rw [plast_irrel n r.dst _ (ptraverse_path_ne_nil _ _ _ _)]
      exact this

/-! ### a datum that sits maximally in `t` is detected as `t`, unchanged, from every identity
ancestor of `t` (C03 second half, C04, C15, C16-chain) -/

theorem idpath_contains (ts : TS T D) {I : D → Prop} (wf : ts.WF I) {a t : T} (hp : IdPath ts a t) (d : D)
    (hI : I d) (hT : ts.contains t d = true) : ts.contains a d = true := by
  induction hp with
  | refl => exact hT
  | step r hr _ ih =>
    have ⟨hm, hi⟩ := mem_idSucc.mp hr
    exact wf.nested _ r hm hi d hI (ih hT)

theorem idSucc_filter_le (ts : TS T D) (n : T) (x : D) :
    ((ts.idSucc n).filter (·.guard x)).length ≤ ((ts.succ n).filter (·.guard x)).length := by
  simp only [TS.idSucc, pbase]
  exact (List.Sublist.filter _ List.filter_sublist).length_le

theorem find?_eq_some_of_unique {α : Type} (p : α → Bool) (l : List α) (a : α)
    (ha : a ∈ l) (hpa : p a = true) (h1 : (l.filter p).length ≤ 1) : ∃ b, l.find? p = some b ∧ (l.filter p) = [b] := by
  have hmem : a ∈ l.filter p := List.mem_filter.mpr ⟨ha, hpa⟩
  match hf : l.filter p with
  | [] => rw [hf] at hmem; cases hmem
  | [b] =>
    refine ⟨b, ?_, rfl⟩
    have : (l.filter p).head? = some b := by rw [hf]; rfl
    rw [List.head?_filter] at this
    exact this
  | b :: c :: rest => rw [hf] at h1; simp at h1

/-- with at most one accepting element, `find?` returns *the* accepting element -/
theorem find?_unique_dst {α : Type} (p : α → Bool) (l : List α) (a : α)
    (ha : a ∈ l) (hpa : p a = true) (h1 : (l.filter p).length ≤ 1) : l.find? p = some a := by
  obtain ⟨b, hb, hf⟩ := find?_eq_some_of_unique p l a ha hpa h1
  have hmem : a ∈ l.filter p := List.mem_filter.mpr ⟨ha, hpa⟩
  rw [hf] at hmem
  simp at hmem
  rw [hb, hmem]

theorem detect_follows_chain (ts : TS T D) {I : D → Prop} (wf : ts.WF I) (t : T) (d : D)
    (hI : I d) (hT : ts.contains t d = true) (hmax : pfirst (ts.idSucc t) d = none) :
    ∀ a, IdPath ts a t → ∀ f, ts.h a < f →
      (ptraverse ts.idSucc f a d).1 = d ∧ plast a (ptraverse ts.idSucc f a d).2 = t := by
  intro a hp
  induction hp with
  | refl a =>
    intro f hf
    cases f with
    | zero => omega
    | succ f => simp [ptraverse, hmax, plast]
  | @step a b r hr hrest ih =>
    intro f hf
    cases f with
    | zero => omega
    | succ f =>
      have ⟨hm, hi⟩ := mem_idSucc.mp hr
      have ⟨hg, hx⟩ := wf.idGuard a r hm hi
      have hcd : ts.contains r.dst d = true := idpath_contains ts wf hrest d hI hT
      have hca : ts.contains a d = true := wf.nested a r hm hi d hI hcd
      have hga : r.guard d = true := by rw [hg]; exact hcd
      have h1 : ((ts.idSucc a).filter (·.guard d)).length ≤ 1 :=
        Nat.le_trans (idSucc_filter_le ts a d) (wf.mutex a d hI hca)
      have hfind : pfirst (ts.idSucc a) d = some r := find?_unique_dst _ _ r hr hga h1
      have hlt := wf.height a r hm
      have := ih hT hmax f (by omega)
      simp only [ptraverse, hfind, hx]
      rw [plast_cons_of_ne_nil _ _ _ (ptraverse_path_ne_nil _ _ _ _)]
      rw [plast_irrel a r.dst _ (ptraverse_path_ne_nil _ _ _ _)]
      exact this

/-- identity sub-system of a well-formed system, as a `TS` of its own -/
def TS.idOnly (ts : TS T D) : TS T D := { ts with succ := ts.idSucc }

theorem pfirst_idSucc_none_of_none (ts : TS T D) (n : T) (x : D)
    (h : pfirst (ts.succ n) x = none) : pfirst (ts.idSucc n) x = none := by
  simp only [pfirst, TS.idSucc, pbase, List.find?_eq_none] at *
  intro r hr
  exact h r (List.mem_filter.mp hr).1

/-- the nodes of a typeset: a set containing the root and closed under the relations -/
structure Nodes (ts : TS T D) (N : T → Prop) (root : T) : Prop where
  rootIn : N root
  step : ∀ n r, N n → r ∈ ts.succ n → N r.dst
  idpath : ∀ t, N t → IdPath ts root t

theorem path_in_nodes (ts : TS T D) (N : T → Prop) (hstep : ∀ n r, N n → r ∈ ts.succ n → N r.dst) :
    ∀ f n x, N n → ∀ t ∈ (ptraverse ts.succ f n x).2, N t := by
  intro f
  induction f with
  | zero => intro n x hn t ht; simp [ptraverse] at ht; rw [ht]; exact hn
  | succ f ih =>
    intro n x hn t ht
    simp only [ptraverse] at ht
    cases hfa : pfirst (ts.succ n) x with
    | none => rw [hfa] at ht; simp at ht; rw [ht]; exact hn
    | some r =>
      rw [hfa] at ht
      have hmem : r ∈ ts.succ n := List.mem_of_find?_eq_some hfa
      cases ht with
      | head => exact hn
      | tail _ ht => exact ih r.dst (r.xform x) (hstep n r hn hmem) t ht

theorem plast_in_nodes (ts : TS T D) (N : T → Prop) (hstep : ∀ n r, N n → r ∈ ts.succ n → N r.dst)
    (f : Nat) (n : T) (x : D) (hn : N n) : N (plast n (ptraverse ts.succ f n x).2) := by
  apply path_in_nodes ts N hstep f n x hn
  simp only [plast]
  cases hl : (ptraverse ts.succ f n x).2.getLast? with
  | none => exact absurd (List.getLast?_eq_none_iff.mp hl) (ptraverse_path_ne_nil _ _ _ _)
  | some v => exact List.mem_of_getLast? hl

/-- **Inference is sound** (C03): the cast datum is in the inferred type, and detecting the cast
datum — from the root, identity relations only — gives exactly the inferred type and leaves the
datum unchanged. -/
theorem infer_sound (ts : TS T D) {I : D → Prop} (wf : ts.WF I) (root : T) (N : T → Prop) (hN : Nodes ts N root)
    (f : Nat) (hf : ts.h root < f) (x : D) (hI : I x) (hx : ts.contains root x = true) :
    let res := ptraverse ts.succ f root x
    let t := plast root res.2
    ts.contains t res.1 = true ∧
    (ptraverse ts.idSucc f root res.1).1 = res.1 ∧
    plast root (ptraverse ts.idSucc f root res.1).2 = t := by
  intro res t
  have ⟨hc, hstop, hI'⟩ := infer_lands ts wf f root x hf hI hx
  refine ⟨hc, ?_⟩
  exact detect_follows_chain ts wf t res.1 hI' hc (pfirst_idSucc_none_of_none ts t res.1 hstop)
    root (hN.idpath t (plast_in_nodes ts N hN.step f root x hN.rootIn)) f hf

/-! ### fixpoint (C04): inferring again from the cast datum follows the identity chain only and
returns the same datum -/

theorem infer_follows_chain (ts : TS T D) {I : D → Prop} (wf : ts.WF I) (t : T) (d : D)
    (hI : I d) (hT : ts.contains t d = true) (hmax : pfirst (ts.succ t) d = none) :
    ∀ a, IdPath ts a t → ∀ f, ts.h a < f →
      (ptraverse ts.succ f a d).1 = d ∧ plast a (ptraverse ts.succ f a d).2 = t := by
  intro a hp
  induction hp with
  | refl a =>
    intro f hf
    cases f with
    | zero => omega
    | succ f => simp [ptraverse, hmax, plast]
  | @step a b r hr hrest ih =>
    intro f hf
    cases f with
    | zero => omega
    | succ f =>
      have ⟨hm, hi⟩ := mem_idSucc.mp hr
      have ⟨hg, hx⟩ := wf.idGuard a r hm hi
      have hcd : ts.contains r.dst d = true := idpath_contains ts wf hrest d hI hT
      have hca : ts.contains a d = true := wf.nested a r hm hi d hI hcd
      have hga : r.guard d = true := by rw [hg]; exact hcd
      have hfind : pfirst (ts.succ a) d = some r := find?_unique_dst _ _ r hm hga (wf.mutex a d hI hca)
      have hlt := wf.height a r hm
      have := ih hT hmax f (by omega)
      simp only [ptraverse, hfind, hx]
      rw [plast_cons_of_ne_nil _ _ _ (ptraverse_path_ne_nil _ _ _ _)]
      rw [plast_irrel a r.dst _ (ptraverse_path_ne_nil _ _ _ _)]
      exact this

theorem infer_fixpoint (ts : TS T D) {I : D → Prop} (wf : ts.WF I) (root : T) (N : T → Prop) (hN : Nodes ts N root)
    (f : Nat) (hf : ts.h root < f) (x : D) (hI : I x) (hx : ts.contains root x = true) :
    let res := ptraverse ts.succ f root x
    (ptraverse ts.succ f root res.1).1 = res.1 ∧
    plast root (ptraverse ts.succ f root res.1).2 = plast root res.2 := by
  intro res
  have ⟨hc, hstop, hI'⟩ := infer_lands ts wf f root x hf hI hx
  exact infer_follows_chain ts wf _ res.1 hI' hc hstop root
    (hN.idpath _ (plast_in_nodes ts N hN.step f root x hN.rootIn)) f hf

end V

/-
  Lemmas about `buildGraph` (VModel.Graph) for an arbitrary relation table satisfying `TableWF`:
  on a parent-closed node set containing the root type, in *any* supply order, the built graph has
  exactly the given nodes, the root is the generic type, nothing is orphaned, and its edges are
  exactly the declared relations whose source is included.
-/
import VModel.Graph
namespace V

set_option linter.unusedSectionVars false
variable {T : Type} [DecidableEq T]

/-- Well-formedness of a declared relation table (decidable for the generated table). -/
structure TableWF (declared : T → List (RelDecl T)) (generic : T) (rank : T → Nat) : Prop where
  genericNone : declared generic = []
  oneIdentity : ∀ t, t ≠ generic → ((declared t).filter (fun r => !r.inferential)).length = 1
  srcNodup : ∀ t, ((declared t).map (·.src)).Nodup
  rankInc : ∀ t, ∀ r ∈ declared t, rank r.src < rank t

/-- the identity parent of every member is a member -/
def ParentClosedL (declared : T → List (RelDecl T)) (S : List T) : Prop :=
  ∀ t ∈ S, ∀ r ∈ declared t, r.inferential = false → r.src ∈ S

theorem mem_allDecls {declared : T → List (RelDecl T)} {nodes : List T} {e : Edge T} :
    e ∈ allDecls declared nodes ↔ e.dst ∈ nodes ∧ (⟨e.src, e.inferential⟩ : RelDecl T) ∈ declared e.dst := by
  simp only [allDecls, List.mem_flatMap, List.mem_map]
  constructor
  · rintro ⟨n, hn, r, hr, rfl⟩
    exact ⟨hn, hr⟩
  · rintro ⟨hn, hr⟩
    exact ⟨e.dst, hn, ⟨e.src, e.inferential⟩, hr, rfl⟩

def Clash (e f : Edge T) : Prop := e.src = f.src ∧ e.dst = f.dst

theorem addEdge_noclash (es : List (Edge T)) (e : Edge T) (h : ∀ f ∈ es, ¬ Clash f e) :
    addEdge es e = es ++ [e] := by
  simp only [addEdge]
  have : es.any (fun f => f.src == e.src && f.dst == e.dst) = false := by
    rw [List.any_eq_false]
    intro f hf
    have := h f hf
    simp only [Clash, not_and] at this
    simp only [Bool.and_eq_true, beq_iff_eq, not_and]
    exact this
  simp [this]

theorem foldl_addEdge_eq (l : List (Edge T)) :
    ∀ acc : List (Edge T), (∀ e ∈ l, ∀ f ∈ acc, ¬ Clash f e) →
      l.Pairwise (fun e f => ¬ Clash e f) → l.foldl addEdge acc = acc ++ l := by
  induction l with
  | nil => intro acc _ _; simp
  | cons e l ih =>
    intro acc h1 h2
    simp only [List.foldl_cons]
    rw [addEdge_noclash acc e (fun f hf => h1 e (List.mem_cons_self) f hf)]
    rw [ih (acc ++ [e])]
    · simp
    · intro e' he' f hf
      rcases List.mem_append.mp hf with hf | hf
      · exact h1 e' (List.mem_cons_of_mem _ he') f hf
      · simp only [List.mem_singleton] at hf
        subst hf
        exact (List.pairwise_cons.mp h2).1 e' he'
    · exact (List.pairwise_cons.mp h2).2

theorem allDecls_pairwise {declared : T → List (RelDecl T)}
    (hsrc : ∀ t, ((declared t).map (·.src)).Nodup) :
    ∀ nodes : List T, nodes.Nodup → (allDecls declared nodes).Pairwise (fun e f => ¬ Clash e f) := by
  intro nodes
  induction nodes with
  | nil => intro _; simp [allDecls]
  | cons n ns ih =>
    intro hnd
    have ⟨hn, hns⟩ := List.nodup_cons.mp hnd
    simp only [allDecls, List.flatMap_cons]
    rw [List.pairwise_append]
    refine ⟨?_, ih hns, ?_⟩
    · -- within one node: distinct sources
      have := hsrc n
      rw [List.pairwise_map]
      rw [List.Nodup, List.pairwise_map] at this
      exact this.imp (fun hne hc => hne hc.1)
    · intro a ha b hb hc
      simp only [List.mem_map] at ha
      obtain ⟨r, _, rfl⟩ := ha
      have hb' := (mem_allDecls.mp hb).1
      rw [← hc.2] at hb'
      exact hn hb'

theorem find?_unique {α : Type} (p : α → Bool) (l : List α) (a : α) (ha : a ∈ l) (hpa : p a = true)
    (hu : ∀ b ∈ l, p b = true → b = a) : l.find? p = some a := by
  induction l with
  | nil => cases ha
  | cons b l ih =>
    simp only [List.find?_cons]
    cases hb : p b with
    | true => rw [hu b (List.mem_cons_self) hb]
    | false =>
      have : a ∈ l := by
        rcases List.mem_cons.mp ha with h | h
        · subst h; rw [hpa] at hb; cases hb
        · exact h
      exact ih this (fun c hc => hu c (List.mem_cons_of_mem _ hc))

theorem inDegree_eq_zero {es : List (Edge T)} {n : T} :
    inDegree es n = 0 ↔ ∀ e ∈ es, e.dst ≠ n := by
  simp only [inDegree, List.length_eq_zero_iff, List.filter_eq_nil_iff, beq_iff_eq]

/-- the present edges (those whose source type is included) -/
def presentEdges (declared : T → List (RelDecl T)) (S : List T) : List (Edge T) :=
  (allDecls declared S).filter (fun e => S.contains e.src)

theorem mem_presentEdges {declared : T → List (RelDecl T)} {S : List T} {e : Edge T} :
    e ∈ presentEdges declared S ↔
      e.dst ∈ S ∧ e.src ∈ S ∧ (⟨e.src, e.inferential⟩ : RelDecl T) ∈ declared e.dst := by
  simp only [presentEdges, List.mem_filter, mem_allDecls, List.contains_iff_mem]
  constructor
  · rintro ⟨⟨h1, h2⟩, h3⟩; exact ⟨h1, h3, h2⟩
  · rintro ⟨h1, h3, h2⟩; exact ⟨⟨h1, h2⟩, h3⟩

/-- **Main structural lemma.**  For a well-formed table, a duplicate-free, parent-closed node list
containing the generic type — in whatever order — builds without error into a graph with exactly
those nodes (in that order), root `generic`, no orphans, and as edges exactly the declared relations
whose source is present (in declaration order). -/
theorem buildGraph_closed {declared : T → List (RelDecl T)} {generic : T} {rank : T → Nat}
    (wf : TableWF declared generic rank) (S : List T) (nd : S.Nodup) (hg : generic ∈ S)
    (pc : ParentClosedL declared S) :
    ∃ b, buildGraph declared S = .ok b ∧ b.nodes = S ∧ b.root = generic ∧ b.orphaned = [] ∧
      b.edges = presentEdges declared S ∧
      b.missing = (allDecls declared S).filter (fun e => !S.contains e.src) := by
  have hedges : (presentEdges declared S).foldl addEdge [] = presentEdges declared S := by
    rw [foldl_addEdge_eq _ [] (by simp)]
    · simp
    · exact (allDecls_pairwise wf.srcNodup S nd).sublist List.filter_sublist
  -- in-degrees
  have hdeg0 : inDegree (presentEdges declared S) generic = 0 := by
    rw [inDegree_eq_zero]
    intro e he hd
    have := (mem_presentEdges.mp he).2.2
    rw [hd, wf.genericNone] at this
    cases this
  have hdegpos : ∀ n ∈ S, n ≠ generic → inDegree (presentEdges declared S) n ≠ 0 := by
    intro n hn hne h0
    rw [inDegree_eq_zero] at h0
    have h1 := wf.oneIdentity n hne
    obtain ⟨r, hf⟩ := List.length_eq_one_iff.mp h1
    · have hr : r ∈ (declared n).filter (fun r => !r.inferential) := by rw [hf]; simp
      have ⟨hrm, hri⟩ := List.mem_filter.mp hr
      have hri' : r.inferential = false := by simpa using hri
      have hsrc := pc n hn r hrm hri'
      have : (⟨r.src, n, r.inferential⟩ : Edge T) ∈ presentEdges declared S :=
        mem_presentEdges.mpr ⟨hn, hsrc, hrm⟩
      exact h0 _ this rfl
  have hroot : S.find? (fun n => inDegree (presentEdges declared S) n == 0) = some generic := by
    apply find?_unique _ _ _ hg (by simp [hdeg0])
    intro b hb hpb
    by_cases h : b = generic
    · exact h
    · exact absurd (by simpa using hpb) (hdegpos b hb h)
  have hiso : S.filter (fun n => inDegree (presentEdges declared S) n == 0 &&
      outDegree (presentEdges declared S) n == 0 && n != generic) = [] := by
    rw [List.filter_eq_nil_iff]
    intro n hn
    by_cases h : n = generic
    · simp [h]
    · have := hdegpos n hn h
      simp [this]
  cases S with
  | nil => cases hg
  | cons a as =>
    refine ⟨{ nodes := a :: as, edges := presentEdges declared (a :: as),
              missing := (allDecls declared (a :: as)).filter (fun e => !(a :: as).contains e.src),
              orphaned := [],
              cyclic := hasCycle (a :: as).length (a :: as) (presentEdges declared (a :: as)),
              root := generic }, ?_, rfl, rfl, rfl, rfl, rfl⟩
    unfold buildGraph
    simp only []
    rw [show (allDecls declared (a :: as)).filter (fun e => (a :: as).contains e.src)
          = presentEdges declared (a :: as) from rfl]
    rw [hedges, hroot]
    simp only [hiso]
    have ft : ∀ l : List T, l.filter (fun _ => true) = l := fun l => List.filter_eq_self.mpr (fun _ _ => rfl)
    simp [ft]

end V

namespace V
variable {T : Type} [DecidableEq T]

/-- `a` reaches `b` along identity edges of `es` -/
inductive IdReach (es : List (Edge T)) : T → T → Prop where
  | refl (a : T) : IdReach es a a
  | step {a : T} (e : Edge T) : IdReach es a e.src → e ∈ es → e.inferential = false → IdReach es a e.dst

/-- every member of a parent-closed set hangs under the generic type in the identity graph -/
theorem idReach_of_closed {declared : T → List (RelDecl T)} {generic : T} {rank : T → Nat}
    (wf : TableWF declared generic rank) (S : List T) (pc : ParentClosedL declared S) :
    ∀ k n, rank n ≤ k → n ∈ S → IdReach (presentEdges declared S) generic n := by
  intro k
  induction k with
  | zero =>
    intro n hk hn
    by_cases h : n = generic
    · subst h; exact IdReach.refl _
    · obtain ⟨r, hf⟩ := List.length_eq_one_iff.mp (wf.oneIdentity n h)
      have hr : r ∈ (declared n).filter (fun r => !r.inferential) := by rw [hf]; simp
      have := wf.rankInc n r (List.mem_filter.mp hr).1
      omega
  | succ k ih =>
    intro n hk hn
    by_cases h : n = generic
    · subst h; exact IdReach.refl _
    · obtain ⟨r, hf⟩ := List.length_eq_one_iff.mp (wf.oneIdentity n h)
      have hr : r ∈ (declared n).filter (fun r => !r.inferential) := by rw [hf]; simp
      have ⟨hrm, hri⟩ := List.mem_filter.mp hr
      have hri' : r.inferential = false := by simpa using hri
      have hlt := wf.rankInc n r hrm
      have hsrc := pc n hn r hrm hri'
      have hreach := ih r.src (by omega) hsrc
      have he : (⟨r.src, n, r.inferential⟩ : Edge T) ∈ presentEdges declared S :=
        mem_presentEdges.mpr ⟨hn, hsrc, hrm⟩
      exact IdReach.step ⟨r.src, n, r.inferential⟩ hreach he hri'

/-- exactly one identity edge enters every non-generic member: the one from its declared parent -/
theorem one_identity_in {declared : T → List (RelDecl T)} {generic : T} {rank : T → Nat}
    (wf : TableWF declared generic rank) (S : List T) (nd : S.Nodup) (pc : ParentClosedL declared S)
    (n : T) (hn : n ∈ S) (hne : n ≠ generic) :
    ∃ p, ∀ e, (e ∈ presentEdges declared S ∧ e.dst = n ∧ e.inferential = false) ↔ e = ⟨p, n, false⟩ := by
  obtain ⟨r, hf⟩ := List.length_eq_one_iff.mp (wf.oneIdentity n hne)
  have hr : r ∈ (declared n).filter (fun r => !r.inferential) := by rw [hf]; simp
  have ⟨hrm, hri⟩ := List.mem_filter.mp hr
  have hri' : r.inferential = false := by simpa using hri
  refine ⟨r.src, fun e => ⟨?_, ?_⟩⟩
  · rintro ⟨he, hd, hi⟩
    have hm := (mem_presentEdges.mp he).2.2
    rw [hd, hi] at hm
    have : (⟨e.src, false⟩ : RelDecl T) ∈ (declared n).filter (fun r => !r.inferential) :=
      List.mem_filter.mpr ⟨hm, by simp⟩
    rw [hf] at this
    simp only [List.mem_singleton] at this
    cases e with
    | mk s d i =>
      simp only at hd hi this
      subst hd hi
      rw [← this]
  · rintro rfl
    refine ⟨mem_presentEdges.mpr ⟨hn, pc n hn r hrm hri', ?_⟩, rfl, rfl⟩
    have : r = ⟨r.src, false⟩ := by cases r; simp_all
    rw [← this]; exact hrm

end V

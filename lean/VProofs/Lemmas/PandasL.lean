/-
  Helper lemmas about the pandas column model: decorators, `dropna`, dtype table facts.
-/
import VModel.Pandas
import VModel.PandasGood
namespace V.Pd
open V V.Gen

/-- a column has a non-missing cell -/
def HasValue (c : Column) : Prop := ∃ x ∈ c.cells, x.null = false

theorem dropna_cells (c : Column) : c.dropna.cells = c.cells.filter (fun x => !x.null) := rfl
theorem dropna_dtype (c : Column) : c.dropna.dtype = c.dtype := rfl

theorem dropna_no_null (c : Column) : ∀ x ∈ c.dropna.cells, x.null = false := by
  intro x hx
  rw [dropna_cells] at hx
  have := (List.mem_filter.mp hx).2
  simpa using this

theorem mem_dropna {c : Column} {x : Cell} : x ∈ c.dropna.cells ↔ x ∈ c.cells ∧ x.null = false := by
  rw [dropna_cells, List.mem_filter]; simp

theorem hasnans_false_iff (c : Column) : c.hasnans = false ↔ ∀ x ∈ c.cells, x.null = false := by
  simp [Column.hasnans, List.any_eq_false]

theorem dropna_empty_iff (c : Column) : c.dropna.empty = true ↔ ∀ x ∈ c.cells, x.null = true := by
  simp only [Column.empty, dropna_cells, List.isEmpty_iff, List.filter_eq_nil_iff]
  constructor
  · intro h x hx; have := h x hx; simpa using this
  · intro h x hx; simp [h x hx]

theorem empty_iff (c : Column) : c.empty = true ↔ c.cells = [] := by
  simp [Column.empty, List.isEmpty_iff]

/-- `handleNullsB f c` holds iff `c` has a value-or-no-nulls and `f` holds of the non-missing part -/
theorem handleNullsB_true {f : Column → Bool} {c : Column} (h : handleNullsB f c = true) :
    (c.hasnans = true ∧ c.dropna.empty = false ∧ f c.dropna = true) ∨ (c.hasnans = false ∧ f c = true) := by
  simp only [handleNullsB] at h
  by_cases hn : c.hasnans = true
  · simp only [hn, if_true] at h
    by_cases he : c.dropna.empty = true
    · simp [he] at h
    · left; refine ⟨hn, by simpa using he, ?_⟩; simpa [he] using h
  · right
    have hn' : c.hasnans = false := by simpa using hn
    simp only [hn', Bool.false_eq_true, if_false] at h
    exact ⟨hn', h⟩

theorem handleNullsB_intro_nonans {f : Column → Bool} {c : Column} (hn : c.hasnans = false) (hf : f c = true) :
    handleNullsB f c = true := by simp [handleNullsB, hn, hf]

theorem handleNullsB_intro_nans {f : Column → Bool} {c : Column} (hn : c.hasnans = true)
    (he : c.dropna.empty = false) (hf : f c.dropna = true) : handleNullsB f c = true := by
  simp [handleNullsB, hn, he, hf]

theorem notEmptyB_true {f : Column → Bool} {c : Column} (h : notEmptyB f c = true) :
    c.empty = false ∧ f c = true := by
  simp only [notEmptyB] at h
  by_cases he : c.empty = true
  · simp [he] at h
  · exact ⟨by simpa using he, by simpa [he] using h⟩

theorem notEmptyB_intro {f : Column → Bool} {c : Column} (he : c.empty = false) (hf : f c = true) :
    notEmptyB f c = true := by simp [notEmptyB, he, hf]

/-- a column with a non-missing cell is not empty, nor is its non-missing part -/
theorem hasValue_of_handle {c : Column} (h : (c.hasnans = true ∧ c.dropna.empty = false) ∨ (c.hasnans = false ∧ c.empty = false)) :
    HasValue c := by
  rcases h with ⟨_, he⟩ | ⟨hn, he⟩
  · have : c.dropna.cells ≠ [] := by
      intro h0; simp [Column.empty, h0] at he
    obtain ⟨x, hx⟩ := List.exists_mem_of_ne_nil _ this
    exact ⟨x, (mem_dropna.mp hx).1, (mem_dropna.mp hx).2⟩
  · have : c.cells ≠ [] := by
      intro h0; simp [Column.empty, h0] at he
    obtain ⟨x, hx⟩ := List.exists_mem_of_ne_nil _ this
    exact ⟨x, hx, (hasnans_false_iff c).mp hn x hx⟩

theorem dropna_nonempty_of_hasValue {c : Column} (h : HasValue c) : c.dropna.empty = false := by
  obtain ⟨x, hx, hn⟩ := h
  cases he : c.dropna.empty with
  | false => rfl
  | true => have := (dropna_empty_iff c).mp he x hx; rw [hn] at this; cases this

theorem nonempty_of_hasValue {c : Column} (h : HasValue c) : c.empty = false := by
  obtain ⟨x, hx, _⟩ := h
  cases he : c.empty with
  | false => rfl
  | true => rw [(empty_iff c).mp he] at hx; cases hx

/-- `handleNullsB (notEmptyB f)` and `notEmptyB (handleNullsB f)`: both say "has a value and `f` of the non-missing part" -/
theorem handle_notEmpty_true {f : Column → Bool} {c : Column} (h : handleNullsB (notEmptyB f) c = true) :
    HasValue c ∧ ((c.hasnans = true ∧ f c.dropna = true) ∨ (c.hasnans = false ∧ f c = true)) := by
  rcases handleNullsB_true h with ⟨hn, he, hf⟩ | ⟨hn, hf⟩
  · exact ⟨hasValue_of_handle (Or.inl ⟨hn, he⟩), Or.inl ⟨hn, (notEmptyB_true hf).2⟩⟩
  · have := notEmptyB_true hf
    exact ⟨hasValue_of_handle (Or.inr ⟨hn, this.1⟩), Or.inr ⟨hn, this.2⟩⟩

theorem notEmpty_handle_true {f : Column → Bool} {c : Column} (h : notEmptyB (handleNullsB f) c = true) :
    HasValue c ∧ ((c.hasnans = true ∧ f c.dropna = true) ∨ (c.hasnans = false ∧ f c = true)) := by
  have ⟨he, h2⟩ := notEmptyB_true h
  rcases handleNullsB_true h2 with ⟨hn, hd, hf⟩ | ⟨hn, hf⟩
  · exact ⟨hasValue_of_handle (Or.inl ⟨hn, hd⟩), Or.inl ⟨hn, hf⟩⟩
  · exact ⟨hasValue_of_handle (Or.inr ⟨hn, he⟩), Or.inr ⟨hn, hf⟩⟩

theorem handle_notEmpty_intro {f : Column → Bool} {c : Column} (hv : HasValue c)
    (hf : (c.hasnans = true → f c.dropna = true) ∧ (c.hasnans = false → f c = true)) :
    handleNullsB (notEmptyB f) c = true := by
  cases hn : c.hasnans with
  | true =>
    exact handleNullsB_intro_nans hn (dropna_nonempty_of_hasValue hv)
      (notEmptyB_intro (by
        have := dropna_nonempty_of_hasValue hv
        -- the non-missing part of the non-missing part
        simpa using this) (hf.1 hn))
  | false => exact handleNullsB_intro_nonans hn (notEmptyB_intro (nonempty_of_hasValue hv) (hf.2 hn))

theorem notEmpty_handle_intro {f : Column → Bool} {c : Column} (hv : HasValue c)
    (hf : (c.hasnans = true → f c.dropna = true) ∧ (c.hasnans = false → f c = true)) :
    notEmptyB (handleNullsB f) c = true := by
  apply notEmptyB_intro (nonempty_of_hasValue hv)
  cases hn : c.hasnans with
  | true => exact handleNullsB_intro_nans hn (dropna_nonempty_of_hasValue hv) (hf.1 hn)
  | false => exact handleNullsB_intro_nonans hn (hf.2 hn)

/-- a predicate of the dtype alone: handling nulls only adds "has a value" -/
theorem handle_dtype (p : DKind → Bool) (c : Column) :
    handleNullsB (notEmptyB (fun c => p c.dtype)) c = true ↔ HasValue c ∧ p c.dtype = true := by
  constructor
  · intro h
    have ⟨hv, h2⟩ := handle_notEmpty_true h
    refine ⟨hv, ?_⟩
    rcases h2 with ⟨_, h3⟩ | ⟨_, h3⟩
    · simpa [dropna_dtype] using h3
    · exact h3
  · rintro ⟨hv, hp⟩
    exact handle_notEmpty_intro hv ⟨fun _ => by simpa [dropna_dtype] using hp, fun _ => hp⟩

end V.Pd

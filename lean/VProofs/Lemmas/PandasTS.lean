/-
  The pandas backend model as a pure type system (`TS`) for the lifting theorems, and the tie to
  the functions the driver actually evaluates (`traverse (Pd.graphOf o b)`).
-/
import VProofs.Lemmas.Full
import VProofs.Lemmas.Refine
import VModel.Pandas
namespace V.Pd
open V V.Gen

variable {T D : Type}

theorem pbase_purify (g : Graph T D Unit) (n : T) : pbase (purify g) n = purify g.base n := by
  simp only [pbase, purify, Graph.base, List.filter_map]
  rfl

/-- the relation graph of a built typeset over pandas columns, purified -/
def pandasTS (o : ColOracle) (b : Built Ty) : TS Ty Column :=
  { succ := purify (graphOf o b), contains := containsB, h := fun t => 32 - rank t }

theorem rank_le (t : Ty) : rank t ≤ 8 := by cases t <;> decide

/-! projections of `purifyRel (mkRel o e)` -/
theorem mkRel_dst (o : ColOracle) (e : Edge Ty) : (purifyRel (mkRel o e)).dst = e.dst := by
  by_cases h : e.inferential = true <;> simp [mkRel, h, purifyRel]
theorem mkRel_src (o : ColOracle) (e : Edge Ty) : (purifyRel (mkRel o e)).src = e.src := by
  by_cases h : e.inferential = true <;> simp [mkRel, h, purifyRel]
theorem mkRel_inf (o : ColOracle) (e : Edge Ty) : (purifyRel (mkRel o e)).inferential = e.inferential := by
  by_cases h : e.inferential = true <;> simp [mkRel, h, purifyRel]
theorem mkRel_id_guard (o : ColOracle) (e : Edge Ty) (h : e.inferential = false) (c : Column) :
    (purifyRel (mkRel o e)).guard c = containsB e.dst c := by
  simp [mkRel, h, purifyRel, contains, Except.map]
theorem mkRel_id_xform (o : ColOracle) (e : Edge Ty) (h : e.inferential = false) (c : Column) :
    (purifyRel (mkRel o e)).xform c = c := by
  simp [mkRel, h, purifyRel]

theorem mem_pandasTS_succ {o : ColOracle} {b : Built Ty} {n : Ty} {r : PRel Ty Column}
    (hr : r ∈ (pandasTS o b).succ n) :
    ∃ e ∈ b.edges, e.src = n ∧ r = purifyRel (mkRel o e) ∧ r.src = e.src ∧ r.dst = e.dst ∧ r.inferential = e.inferential ∧
      (e.inferential = false → (∀ c, r.guard c = containsB e.dst c) ∧ (∀ c, r.xform c = c)) := by
  simp only [pandasTS, purify, graphOf, List.mem_map] at hr
  obtain ⟨r0, ⟨e, he, rfl⟩, rfl⟩ := hr
  have hm := List.mem_filter.mp he
  exact ⟨e, hm.1, by simpa using hm.2, rfl, mkRel_src o e, mkRel_dst o e, mkRel_inf o e,
    fun h => ⟨mkRel_id_guard o e h, mkRel_id_xform o e h⟩⟩

/-- L0 holds by construction -/
theorem pandasTS_L0 (o : ColOracle) (b : Built Ty) : (pandasTS o b).L0 := by
  intro n r hr hi
  obtain ⟨e, _, _, _, _, hdst, hinf, hid⟩ := mem_pandasTS_succ hr
  have := hid (by rw [← hinf]; exact hi)
  simp only [pandasTS]
  rw [hdst]; exact this

/-- acyclic: every edge of a typeset whose edges increase `rank` decreases the height -/
theorem pandasTS_height (o : ColOracle) (b : Built Ty) (hrank : ∀ e ∈ b.edges, rank e.src < rank e.dst) :
    ∀ n r, r ∈ (pandasTS o b).succ n → (pandasTS o b).h r.dst < (pandasTS o b).h n := by
  intro n r hr
  obtain ⟨e, he, hsrc, _, _, hdst, _, _⟩ := mem_pandasTS_succ hr
  have := hrank e he
  have h1 := rank_le e.dst
  simp only [pandasTS]
  rw [hdst, ← hsrc]; omega

/-- **tie to the executable model**: when the full-engine traversal the driver evaluates returns
normally, it returned the pure traversal of `pandasTS` -/
theorem infer_model_eq (o : ColOracle) (b : Built Ty) (f : Nat) (n : Ty) (c d : Column) (p : List Ty)
    (h : traverse (graphOf o b) f n c () [] = .ok (d, p, ())) :
    ptraverse (pandasTS o b).succ f n c = (d, p) := by
  obtain ⟨q, hq, hpt⟩ := traverse_ok_pure (graphOf o b) f n c [] d p h
  simp only [List.nil_append] at hq
  rw [hq]; exact hpt

theorem detect_model_eq (o : ColOracle) (b : Built Ty) (f : Nat) (n : Ty) (c d : Column) (p : List Ty)
    (h : traverse (graphOf o b).base f n c () [] = .ok (d, p, ())) :
    ptraverse (pandasTS o b).idSucc f n c = (d, p) := by
  obtain ⟨q, hq, hpt⟩ := traverse_ok_pure (graphOf o b).base f n c [] d p h
  simp only [List.nil_append] at hq
  have e : (pandasTS o b).idSucc = purify (graphOf o b).base := by
    funext n; exact pbase_purify (graphOf o b) n
  rw [e, hq]; exact hpt

end V.Pd

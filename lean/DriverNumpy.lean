/-
  JSON decoding/encoding of abstract numpy arrays and the `numpy` operation of the line-protocol driver.
  No logic of its own: decodes a request into model values, evaluates `V.Np.*` and encodes the result.
-/
import Lean.Data.Json
import VModel.Numpy
import VModel.NumpyGood
import DriverPandas

open Lean V V.Gen

namespace NpDrv
open PdDrv (arr str! bool! field decFloat encFloat decOutcome encOutcome errStr encR)

def decLower (j : Json) : Option (Nat × Bool) :=
  match arr j with
  | [i, b] => some ((i.getNat?).toOption.getD 0, bool! b)
  | _ => none
def encLower : Option (Nat × Bool) → Json
  | some (i, b) => Json.arr #[Json.num (i : JsonNumber), Json.bool b]
  | none => Json.null

def decPair (v : Json) : FloatV × FloatV := match arr v with | [a, b] => (decFloat a, decFloat b) | _ => (.nan, .nan)

def decElem (j : Json) : Np.NElem :=
  let b := fun k => bool! (field j k)
  { null := b "n", isBool := b "bool", isInt := b "int", isStr := b "str", isDatetime := b "dt",
    strEq := decOutcome bool! (field j "se"), lower := decOutcome decLower (field j "lo"),
    fl := decOutcome decFloat (field j "f"), cx := decOutcome decPair (field j "c"),
    firstZero := b "z", hasJI := b "ji" }

/-- the observable part of an element (what α reports about a produced array) -/
def encElem (x : Np.NElem) : Json :=
  Json.mkObj [("n", Json.bool x.null), ("bool", Json.bool x.isBool), ("int", Json.bool x.isInt), ("str", Json.bool x.isStr),
    ("dt", Json.bool x.isDatetime), ("f", encOutcome encFloat x.fl),
    ("c", encOutcome (fun p => Json.arr #[encFloat p.1, encFloat p.2]) x.cx)]

def decArr (j : Json) : Np.NArr :=
  { kind := (NpKind.ofName? (str! (field j "kind"))).getD .O, elems := (arr (field j "elems")).map decElem }
def encArr (a : Np.NArr) : Json :=
  Json.mkObj [("kind", Json.str a.kind.name), ("elems", Json.arr (a.elems.map encElem).toArray)]

/-- request: {"op":"numpy","arr":…,"dtMasked":…,"dtWhole":…,"typesets":[[names…],…]} -/
def handle (req : Json) : Json :=
  let a := decArr (field req "arr")
  let dtM := decOutcome decArr (field req "dtMasked")
  let dtW := decOutcome decArr (field req "dtWhole")
  let o : Np.NpOracle := { dtMasked := fun _ => dtM, dtWhole := fun _ => dtW }
  let cont := Ty.all.map (fun t => (t.name, Json.bool (Np.containsB t a)))
  let relJ := numpyRelationsRegistered.filterMap (fun (s, d) =>
    if Np.containsB s a then
      match Np.guard o s d, Np.xform o s d with
      | some g, some x =>
        let gv := g a
        let xv : Json := match gv with
          | .ok true => encR encArr (x a)
          | _ => Json.null
        some (Json.mkObj [("src", s.name), ("dst", d.name), ("guard", encR Json.bool gv), ("xform", xv)])
      | _, _ => some (Json.mkObj [("src", s.name), ("dst", d.name), ("guard", Json.str "unmodelled")])
    else none)
  let trav := (arr (field req "typesets")).map (fun tsj =>
    match ((arr tsj).map str!).mapM Ty.ofName? with
    | none => Json.mkObj [("err", "unknown-type")]
    | some nodes =>
      match mkTypeset declared isGeneric nodes with
      | .error _ => Json.mkObj [("err", "build")]
      | .ok b =>
        let g := Np.graphOf o b
        let enc := fun (r : Except Err (Np.NArr × List Ty × Unit)) => match r with
          | .ok (c, p, _) => Json.mkObj [("path", Json.arr (p.map (fun t => Json.str t.name)).toArray), ("arr", encArr c)]
          | .error e => Json.mkObj [("raises", Json.str (errStr e))]
        Json.mkObj [("infer", enc (traverse g 64 b.root a () [])),
                    ("detect", enc (traverse g.base 64 b.root a () []))])
  Json.mkObj [("contains", Json.mkObj cont), ("rels", Json.arr relJ.toArray), ("trav", Json.arr trav.toArray),
    ("good", Json.bool (Np.goodB o a)), ("guardsOk", Json.bool (Np.guardsOkNB o a))]

end NpDrv

import VProofs.Lemmas.Pure
import VProofs.Lemmas.Refine
import VProofs.Lemmas.Full
import VProofs.Lemmas.GraphL
import VProofs.Lemmas.LRUL
import VProofs.Lemmas.SortL

/-
  JSON decoding of python-sequence elements and the `pylist` operation of the line-protocol driver.
  No logic of its own: decodes a request into model values, evaluates `V.Py.*` and encodes the result.
-/
import Lean.Data.Json
import VModel.PyList
import DriverPandas

open Lean V V.Gen

namespace PyDrv
open PdDrv (arr str! bool! field)

def decElem (j : Json) : Py.Elem :=
  let b := fun k => bool! (field j k)
  { isNone := b "none", isBool := b "bool", isInt := b "int", isFloat := b "float", isComplex := b "complex",
    isNumber := b "number", nonNeg := b "nonneg", isStr := b "str", isDatetime := b "datetime", isDate := b "date",
    isTime := b "time", isTimedelta := b "timedelta", isPurePath := b "purepath", pathAbs := b "abs", isPath := b "path",
    pathExists := b "exists", pathImage := b "image", isParseResult := b "parseresult", isUUID := b "uuid",
    isFQDA := b "fqda", isGeom := b "geom", isIP := b "ip" }

/-- request: {"op":"pylist","elems":[…],"typesets":[[names…],…]} -/
def handle (req : Json) : Json :=
  let s : Py.Seq := (arr (field req "elems")).map decElem
  let cont := Ty.all.map (fun t => (t.name, Json.bool (Py.containsL t s)))
  let trav := (arr (field req "typesets")).map (fun tsj =>
    match ((arr tsj).map str!).mapM Ty.ofName? with
    | none => Json.mkObj [("err", "unknown-type")]
    | some nodes =>
      match mkTypeset declared isGeneric nodes with
      | .error _ => Json.mkObj [("err", "build")]
      | .ok b => Json.mkObj [("detect", Json.arr ((Py.listDetect b s).map (fun t => Json.str t.name)).toArray)])
  Json.mkObj [("contains", Json.mkObj cont), ("trav", Json.arr trav.toArray)]

end PyDrv

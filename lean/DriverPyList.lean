/-
  JSON decoding of python-sequence elements and the `pylist` operation of the line-protocol driver.
  No logic of its own: decodes a request into model values, evaluates `V.Py.*` and encodes the result.
-/
import Lean.Data.Json
import VModel.PyList
import DriverPandas

open Lean V V.Gen

namespace PyDrv
open PdDrv (arr str! bool! field decFloat encFloat decOutcome encOutcome errStr encR)

def decElem (j : Json) : Py.Elem :=
  let b := fun k => bool! (field j k)
  { isNone := b "none", isBool := b "bool", isInt := b "int", isFloat := b "float", isComplex := b "complex",
    isNumber := b "number", nonNeg := b "nonneg", isStr := b "str", isDatetime := b "datetime", isDate := b "date",
    isTime := b "time", isTimedelta := b "timedelta", isPurePath := b "purepath", pathAbs := b "abs", isPath := b "path",
    pathExists := b "exists", pathImage := b "image", isParseResult := b "parseresult", isUUID := b "uuid",
    isFQDA := b "fqda", isGeom := b "geom", isIP := b "ip",
    lowerTF := decOutcome (fun v => match v with | .null => none | w => some (bool! w)) (field j "lo"),
    flo := decOutcome decFloat (field j "f"), firstZero := decOutcome bool! (field j "z"),
    cplx := decOutcome (fun v => match arr v with | [a, c] => (decFloat a, decFloat c) | _ => (.nan, .nan)) (field j "c"),
    strp := decOutcome bool! (field j "strp"), url := decOutcome bool! (field j "url"),
    uuid := decOutcome (fun _ => ()) (field j "uuidp"), ip := decOutcome (fun _ => ()) (field j "ipp"),
    email := decOutcome bool! (field j "email"), wkt := decOutcome bool! (field j "wkt"),
    winAbs := decOutcome bool! (field j "win"), posixAbs := decOutcome bool! (field j "px"),
    fval := (match field j "fv" with | .null => none | v => some (decFloat v)),
    cval := (match arr (field j "cv") with | [a, c] => some (decFloat a, decFloat c) | _ => none),
    midnight := decOutcome bool! (field j "mid") }

/-- what is compared of a produced element: the `isinstance` facts and the numeric value -/
def encElem (x : Py.Elem) : Json :=
  let bits := [("none", x.isNone), ("bool", x.isBool), ("int", x.isInt), ("float", x.isFloat), ("complex", x.isComplex),
    ("str", x.isStr), ("datetime", x.isDatetime), ("date", x.isDate), ("purepath", x.isPurePath), ("abs", x.pathAbs),
    ("parseresult", x.isParseResult), ("uuid", x.isUUID), ("fqda", x.isFQDA), ("geom", x.isGeom), ("ip", x.isIP)]
  Json.mkObj [("b", Json.arr ((bits.filter (·.2)).map (fun p => Json.str p.1)).toArray),
    ("fv", match x.fval with | some v => encFloat v | none => Json.null),
    ("cv", match x.cval with | some (a, c) => Json.arr #[encFloat a, encFloat c] | none => Json.null)]

/-- request: {"op":"pylist","elems":[…],"typesets":[[names…],…]} -/
def handle (req : Json) : Json :=
  let s : Py.Seq := (arr (field req "elems")).map decElem
  let cont := Ty.all.map (fun t => (t.name, Json.bool (Py.containsL t s)))
  let trav := (arr (field req "typesets")).map (fun tsj =>
    match ((arr tsj).map str!).mapM Ty.ofName? with
    | none => Json.mkObj [("err", "unknown-type")]
    | some nodes =>
      match mkTypeset declared isGeneric nodes with
      | .error _ => Json.mkObj [("err", "build")]
      | .ok b =>
        let inf : Json := match traverse (Py.graphOfL b) 64 b.root s () [] with
          | .ok (c, p, _) => Json.mkObj [("path", Json.arr (p.map (fun t => Json.str t.name)).toArray), ("seq", Json.arr (c.map encElem).toArray)]
          | .error e => Json.mkObj [("raises", Json.str (errStr e))]
        Json.mkObj [("detect", Json.arr ((Py.listDetect b s).map (fun t => Json.str t.name)).toArray), ("infer", inf)])
  -- every declared inference relation whose source contains the sequence: test, and transformer if accepted
  let rels := Ty.all.flatMap (fun t => (declared t).filter (·.inferential) |>.map (fun r => (r.src, t)))
  let relJ := rels.filterMap (fun (sr, d) =>
    if Py.containsL sr s then
      match Py.guardL sr d, Py.xformL sr d with
      | some g, some x =>
        let gv := g s
        let xv : Json := match gv with
          | .ok true => encR (fun c => Json.arr (c.map encElem).toArray) (x s)
          | _ => Json.null
        some (Json.mkObj [("src", sr.name), ("dst", d.name), ("guard", encR Json.bool gv), ("xform", xv)])
      | _, _ => some (Json.mkObj [("src", sr.name), ("dst", d.name), ("guard", Json.str "unmodelled")])
    else none)
  Json.mkObj [("contains", Json.mkObj cont), ("trav", Json.arr trav.toArray), ("rels", Json.arr relJ.toArray),
    ("conv", Json.bool (Py.convCaughtL s))]

end PyDrv

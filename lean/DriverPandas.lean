/-
  JSON decoding/encoding of abstract columns and the `pandas` operation of the line-protocol driver.
  No logic of its own: it decodes a request into model values, evaluates `V.Pd.*` and encodes the result.
-/
import Lean.Data.Json
import VModel.Pandas
import VModel.PandasGood
import VModel.Graph
import VModel.Generated.Relations

open Lean V V.Gen

namespace PdDrv

def arr (j : Json) : List Json := match j with | .arr a => a.toList | _ => []
def str! (j : Json) : String := (j.getStr?).toOption.getD ""
def bool! (j : Json) : Bool := (j.getBool?).toOption.getD false
def field (j : Json) (k : String) : Json := (j.getObjVal? k).toOption.getD Json.null
def intOfStr (s : String) : Int := (s.toInt?).getD 0

def decFloat (j : Json) : FloatV :=
  match j with
  | .str "nan" => .nan
  | .str "inf" => .pinf
  | .str "-inf" => .ninf
  | .arr a => match a.toList with
    | [n, d] => .fin (intOfStr (str! n)) ((d.getNat?).toOption.getD 0)
    | _ => .nan
  | _ => .nan

def encFloat : FloatV → Json
  | .nan => "nan"
  | .pinf => "inf"
  | .ninf => "-inf"
  | .fin n d => Json.arr #[Json.str (toString n), Json.num (d : JsonNumber)]

def decOutcome {α : Type} (dec : Json → α) (j : Json) : Outcome α :=
  match arr j with
  | [tag, v] => if str! tag == "ok" then .ok (dec v) else .raises (str! v)
  | _ => .raises "Malformed"

def encOutcome {α : Type} (enc : α → Json) : Outcome α → Json
  | .ok a => Json.arr #["ok", enc a]
  | .raises c => Json.arr #["raises", Json.str c]

def decNa (s : String) : NaKind :=
  if s == "none" then .none_ else if s == "NA" then .pdNA else if s == "NaT" then .nat else .nan
def encNa : NaKind → String
  | .none_ => "none" | .nan => "nan" | .pdNA => "NA" | .nat => "NaT"

def decPay (j : Json) : Payload :=
  match arr j with
  | [t] => if str! t == "none" then .none else .none
  | [t, a] =>
    let tag := str! t
    if tag == "bool" then .bool (bool! a)
    else if tag == "int" then .int (intOfStr (str! a))
    else if tag == "float" then .float (decFloat a)
    else if tag == "date" then .date (intOfStr (str! a))
    else if tag == "obj" then .obj (str! a)
    else .none
  | [t, a, b] => if str! t == "complex" then .complex (decFloat a) (decFloat b) else .none
  | [t, a, b, c] =>
    if str! t == "ts" then .ts (intOfStr (str! a)) ((intOfStr (str! b)).toNat) (bool! c) else .none
  | _ => .none

def encPay : Payload → Json
  | .none => Json.arr #["none"]
  | .bool b => Json.arr #["bool", Json.bool b]
  | .int z => Json.arr #["int", Json.str (toString z)]
  | .float v => Json.arr #["float", encFloat v]
  | .complex a b => Json.arr #["complex", encFloat a, encFloat b]
  | .ts d n tz => Json.arr #["ts", Json.str (toString d), Json.str (toString n), Json.bool tz]
  | .date d => Json.arr #["date", Json.str (toString d)]
  | .obj r => Json.arr #["obj", Json.str r]

def pairBS (j : Json) : Bool × String := match arr j with | [a, b] => (bool! a, str! b) | _ => (false, "")
def pairSS (j : Json) : String × String := match arr j with | [a, b] => (str! a, str! b) | _ => ("", "")

def decStr (j : Json) : Option StrFacts :=
  match j with
  | .null => none
  | _ => some {
      boolKey := (match arr (field j "bk") with
        | [i, b] => some ((i.getNat?).toOption.getD 0, bool! b)
        | _ => none),
      floatVal := decOutcome decFloat (field j "f"),
      firstIsZero := bool! (field j "z"),
      hasJI := bool! (field j "ji"),
      complexVal := decOutcome (fun v => match arr v with | [a, b] => (decFloat a, decFloat b) | _ => (.nan, .nan)) (field j "c"),
      wkt := decOutcome pairBS (field j "wkt"),
      ip := decOutcome pairSS (field j "ip"),
      winAbs := decOutcome pairBS (field j "win"),
      posixAbs := decOutcome pairBS (field j "px"),
      url := decOutcome (fun v => match arr v with | [a, b, c] => (bool! a, bool! b, str! c) | _ => (false, false, "")) (field j "url"),
      uuid := decOutcome str! (field j "uuid"),
      email := decOutcome str! (field j "em"),
      truthy := bool! (field j "t") }

def decCell (j : Json) : Cell :=
  let bits := (arr (field j "b")).map str!
  let has := fun (s : String) => bits.contains s
  { null := bool! (field j "n"), na := decNa (str! (field j "na")), cls := str! (field j "cls"),
    isStr := has "isStr", isPurePath := has "isPurePath", isPath := has "isPath",
    isParseResult := has "isParseResult", isUUID := has "isUUID", isFQDA := has "isFQDA",
    isGeom := has "isGeom", isIP := has "isIP",
    hasDateAttrs := has "hasDateAttrs", hasTimeAttrs := has "hasTimeAttrs", hasUrlAttrs := has "hasUrlAttrs",
    hasUuidAttrs := has "hasUuidAttrs", hasEmailAttrs := has "hasEmailAttrs",
    pathAbs := has "pathAbs", pathExists := has "pathExists", pathImage := has "pathImage",
    strEq := decOutcome bool! (field j "strEq"), inBoolSet := decOutcome bool! (field j "inBool"),
    truth := decOutcome bool! (field j "truth"), pay := decPay (field j "pay"), str := decStr (field j "str") }

def encCell (x : Cell) : Json :=
  let bits := [("isStr", x.isStr), ("isPurePath", x.isPurePath), ("isPath", x.isPath),
    ("isParseResult", x.isParseResult), ("isUUID", x.isUUID), ("isFQDA", x.isFQDA), ("isGeom", x.isGeom),
    ("isIP", x.isIP), ("hasDateAttrs", x.hasDateAttrs), ("hasTimeAttrs", x.hasTimeAttrs),
    ("hasUrlAttrs", x.hasUrlAttrs), ("hasUuidAttrs", x.hasUuidAttrs), ("hasEmailAttrs", x.hasEmailAttrs),
    ("pathAbs", x.pathAbs), ("pathExists", x.pathExists), ("pathImage", x.pathImage)]
  Json.mkObj [("n", Json.bool x.null), ("na", Json.str (encNa x.na)), ("cls", Json.str x.cls),
    ("b", Json.arr ((bits.filter (·.2)).map (fun p => Json.str p.1)).toArray),
    ("strEq", encOutcome Json.bool x.strEq), ("inBool", encOutcome Json.bool x.inBoolSet),
    ("truth", encOutcome Json.bool x.truth), ("pay", encPay x.pay),
    ("isstr", Json.bool x.str.isSome)]

def decDKind (s : String) : DKind :=
  if s == "object" then .object else match PdFam.ofName? s with | some f => .fam f | none => .object
def encDKind : DKind → String
  | .object => "object"
  | .fam f => f.name

def decColumn (j : Json) : Column :=
  { dtype := decDKind (str! (field j "dtype")), cells := (arr (field j "cells")).map decCell,
    index := (arr (field j "index")).map str!, name := str! (field j "name") }

def encColumn (c : Column) : Json :=
  Json.mkObj [("dtype", Json.str (encDKind c.dtype)), ("cells", Json.arr (c.cells.map encCell).toArray),
    ("index", Json.arr (c.index.map Json.str).toArray), ("name", Json.str c.name)]

def errStr : Err → String
  | .notImplemented => "NotImplementedError"
  | .dispatch _ => "DispatchError"
  | .raised c => c
  | .recursion => "RecursionError"

def encR {α : Type} (enc : α → Json) : Except Err α → Json
  | .ok a => Json.arr #["ok", enc a]
  | .error e => Json.arr #["raises", Json.str (errStr e)]

def decDtOutcome (j : Json) : Outcome (List Cell × Bool) :=
  decOutcome (fun v => ((arr (field v "cells")).map decCell, bool! (field v "tz"))) j

/-- request: {"op":"pandas","col":…,"dtGuard":…,"dtXform":…,"typesets":[[names…],…]} -/
def handle (req : Json) : Json :=
  let col := decColumn (field req "col")
  let dtG := decDtOutcome (field req "dtGuard")
  let dtX := decDtOutcome (field req "dtXform")
  let o : Pd.ColOracle := { toDatetime := fun cells => if cells.length == col.cells.length then dtX else dtG }
  -- membership of every type
  let cont := Ty.all.map (fun t => (t.name, encR Json.bool (Pd.contains t col)))
  -- every declared inference relation whose source contains the column: guard, and transformer if accepted
  let rels := Ty.all.flatMap (fun t => (declared t).filter (·.inferential) |>.map (fun r => (r.src, t)))
  let relJ := rels.filterMap (fun (s, d) =>
    match Pd.contains s col with
    | .ok true =>
      match Pd.guard o s d, Pd.xform o s d with
      | some g, some x =>
        let gv := g col
        let xv : Json := match gv with
          | .ok true => encR encColumn (x col)
          | _ => Json.null
        some (Json.mkObj [("src", s.name), ("dst", d.name), ("guard", encR Json.bool gv), ("xform", xv)])
      | _, _ => some (Json.mkObj [("src", s.name), ("dst", d.name), ("guard", Json.str "unmodelled")])
    | _ => none)
  -- traversals
  let trav := (arr (field req "typesets")).map (fun tsj =>
    match ((arr tsj).map str!).mapM Ty.ofName? with
    | none => Json.mkObj [("err", "unknown-type")]
    | some nodes =>
      match mkTypeset declared isGeneric nodes with
      | .error _ => Json.mkObj [("err", "build")]
      | .ok b =>
        let g := Pd.graphOf o b
        let enc := fun (r : Except Err (Column × List Ty × Unit)) => match r with
          | .ok (c, p, _) => Json.mkObj [("path", Json.arr (p.map (fun t => Json.str t.name)).toArray), ("col", encColumn c)]
          | .error e => Json.mkObj [("raises", Json.str (errStr e))]
        Json.mkObj [("infer", enc (traverse g 64 b.root col () [])),
                    ("detect", enc (traverse g.base 64 b.root col () []))])
  -- the invariant of the pandas theorems on this input, and which conjuncts fail
  let cellsOk := col.cells.all (fun x => Pd.cellWFB x && Pd.payWFB x && (!x.str.isSome || !x.null) && (x.null || Pd.headExclB x))
  let strOk := col.cells.all Pd.strGoodB
  let dtcOk := !col.dtype.isStringNonObject || col.cells.all (fun x => x.null || x.isStr)
  let good := Json.mkObj [("good", Json.bool (Pd.goodB o col)), ("cells", Json.bool cellsOk), ("parsers", Json.bool strOk),
    ("dtypeCells", Json.bool dtcOk), ("dtypePay", Json.bool (Pd.dtypePayB col)), ("oracle", Json.bool (Pd.oracleB o col)),
    ("excl16", Json.bool (Pd.excl16B col)), ("noRaise", Json.bool (Pd.noRaiseB o col)),
    ("guardsOk", Json.bool (Pd.guardsOkB o col))]
  Json.mkObj [("contains", Json.mkObj cont), ("rels", Json.arr relJ.toArray), ("trav", Json.arr trav.toArray), ("good", good)]

end PdDrv

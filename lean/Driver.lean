/-
  Line-protocol driver: one JSON request per line on stdin, one JSON answer per line on stdout.
  Evaluates the *executable definitions of VModel* (no logic of its own beyond decoding requests
  into model values).  Used by the correspondence runners in /verif/harness.
-/
import Lean.Data.Json
import VModel
import VModel.LRU
import VModel.Spark
import DriverPandas
import DriverPyList
import DriverNumpy

open Lean V V.Gen

namespace Drv

abbrev St := List (String × Nat) × List Json     -- the state dict (insertion ordered) and the call log

def dictGet (d : List (String × Nat)) (k : String) : Option Nat := (d.find? (·.1 == k)).map (·.2)
def dictSet (d : List (String × Nat)) (k : String) (v : Nat) : List (String × Nat) :=
  if d.any (·.1 == k) then d.map (fun e => if e.1 == k then (k, v) else e) else d ++ [(k, v)]

def jStr (j : Json) (k : String) : String := (j.getObjValAs? String k).toOption.getD ""
def jNat (j : Json) (k : String) : Nat := (j.getObjValAs? Nat k).toOption.getD 0
def jBool (j : Json) (k : String) : Bool := (j.getObjValAs? Bool k).toOption.getD false
def jArr (j : Json) (k : String) : List Json :=
  match j.getObjVal? k with
  | .ok (.arr a) => a.toList
  | _ => []
def jObj? (j : Json) (k : String) : Option Json :=
  match j.getObjVal? k with
  | .ok .null => none
  | .ok v => some v
  | _ => none
def jNatList (j : Json) (k : String) : List Nat := (jArr j k).filterMap (fun v => v.getNat?.toOption)
def jStrList (j : Json) (k : String) : List String := (jArr j k).filterMap (fun v => v.getStr?.toOption)
def jPairNatStr (v : Json) : Option (Nat × String) :=
  match v with
  | .arr a => match a.toList with
    | [x, y] => match x.getNat?, y.getStr? with
      | .ok n, .ok s => some (n, s)
      | _, _ => none
    | _ => none
  | _ => none
def jPairNatNat (v : Json) : Option (Nat × Nat) :=
  match v with
  | .arr a => match a.toList with
    | [x, y] => match x.getNat?, y.getNat? with
      | .ok n, .ok s => some (n, s)
      | _, _ => none
    | _ => none
  | _ => none

def stJson (d : List (String × Nat)) : Json :=
  Json.arr (d.map (fun e => Json.arr #[Json.str e.1, Json.num e.2])).toArray

def errJson : Err → Json
  | .notImplemented => Json.str "NotImplementedError"
  | .dispatch _ => Json.str "DispatchError"
  | .raised c => Json.str c
  | .recursion => Json.str "RecursionError"

/-- multimethod wraps the registered function: a `TypeError` raised inside it surfaces as `DispatchError`. -/
def mkErr (wrapped : Bool) (cls : String) : Err :=
  if cls == "NotImplementedError" then .notImplemented
  else if wrapped && cls == "TypeError" then .dispatch cls
  else .raised cls

/-- Guard description → model guard.  Semantics (mirrored by the generated Python guard):
log the call; raise if `x ∈ err`; verdict = `x ∈ acc ∨ ∃ (x,k) ∈ accIf, k ∈ state`; then, if
`write = k`, `state[k] = state.get(k,0)+1`. -/
def mkGuard (tag : String) (src dst : String) (g : Json) : Nat → St → Except Err (Bool × St) :=
  let acc := jNatList g "acc"
  let accIf := (jArr g "accIf").filterMap jPairNatStr
  let err := (jArr g "err").filterMap jPairNatStr
  let write := (g.getObjValAs? String "write").toOption
  let wrapped := jBool g "wrapped"
  fun x (d, log) =>
    let log' := log ++ [Json.arr #[Json.str tag, Json.str src, Json.str dst, Json.num x, stJson d]]
    match err.find? (·.1 == x) with
    | some (_, cls) => .error (mkErr wrapped cls)
    | none =>
      let v := acc.contains x || accIf.any (fun (y, k) => y == x && (dictGet d k).isSome)
      let d' := match write with
        | some k => dictSet d k ((dictGet d k).getD 0 + 1)
        | none => d
      .ok (v, (d', log'))

def mkXform (src dst : String) (g : Json) : Nat → St → Except Err (Nat × St) :=
  let mp := (jArr g "map").filterMap jPairNatNat
  let err := (jArr g "err").filterMap jPairNatStr
  let write := (g.getObjValAs? String "write").toOption
  let wrapped := jBool g "wrapped"
  let nolog := jBool g "nolog"
  fun x (d, log) =>
    let log' := if nolog then log else log ++ [Json.arr #[Json.str "t", Json.str src, Json.str dst, Json.num x, stJson d]]
    match err.find? (·.1 == x) with
    | some (_, cls) => .error (mkErr wrapped cls)
    | none =>
      let y := ((mp.find? (·.1 == x)).map (·.2)).getD x
      let d' := match write with
        | some k => dictSet d k ((dictGet d k).getD 0 + 1)
        | none => d
      .ok (y, (d', log'))

def mkRel (r : Json) : Rel String Nat St :=
  let src := jStr r "src"; let dst := jStr r "dst"
  { src := src, dst := dst, inferential := jBool r "inf",
    guard := mkGuard "g" src dst ((jObj? r "guard").getD Json.null),
    xform := mkXform src dst ((jObj? r "xform").getD Json.null) }

def mkGraph (req : Json) : Graph String Nat St :=
  let succJ := (jObj? req "succ").getD (Json.mkObj [])
  { succ := fun n => (jArr succJ n).map mkRel }

def resJson (r : Except Err (Nat × List String × St)) : Json :=
  match r with
  | .error e => Json.mkObj [("err", errJson e)]
  | .ok (x, p, (d, log)) =>
    Json.mkObj [("x", Json.num x), ("path", Json.arr (p.map Json.str).toArray),
                ("state", stJson d), ("log", Json.arr log.toArray)]

def handleEngine (req : Json) : Json :=
  let g0 := mkGraph req
  let base := jBool req "base"
  let g := if base then g0.base else g0
  let fuel := jNat req "fuel"
  let root := jStr req "root"
  let mode := jStr req "mode"
  if mode == "frame" then
    let cols := (jArr req "cols").filterMap jPairNatStr   -- [x, label]
    match traverseFrame g fuel root (([], []) : St) (cols.map (fun (x, l) => (l, x))) with
    | .error e => Json.mkObj [("err", errJson e)]
    | .ok rs => Json.mkObj [("cols", Json.arr (rs.map (fun (l, r) =>
        Json.mkObj [("label", Json.str l), ("res", resJson (.ok r))])).toArray)]
  else if mode == "sampled" then
    let lens := (jArr req "len").filterMap jPairNatNat
    let samp := (jArr req "sample").filterMap jPairNatNat
    let len := fun x => ((lens.find? (·.1 == x)).map (·.2)).getD 0
    let sample := fun x => ((samp.find? (·.1 == x)).map (·.2)).getD x
    let rel := fun a b => (g.succ a).find? (fun r => r.dst == b)
    let s0 : St := ((jArr req "state0").filterMap (fun v => (jPairNatStr v).map (fun (n, k) => (k, n))), [])
    resJson (traverseSampled g rel sample len fuel root (jNat req "x") (jNat req "sampleSize") s0)
  else
    resJson (traverse g fuel root (jNat req "x") (([], []) : St) [])

/-! graph / algebra / export over the generated type table -/

def tyList (names : List String) : Option (List Ty) := names.mapM Ty.ofName?

def edgeJson (e : Edge Ty) : Json :=
  Json.arr #[Json.str e.src.name, Json.str e.dst.name, Json.bool e.inferential]

def buildErrJson : BuildErr → Json
  | .stopIteration => "StopIteration"
  | .unfeasible => "NetworkXUnfeasible"
  | .rootNotGeneric => "ValueError"
  | .keyError => "KeyError"

def builtJson (b : Built Ty) : Json :=
  let ex := exportModel nameRank nameWidth b false
  let exb := exportModel nameRank nameWidth b true
  let exJ := fun (e : Exported Ty) => Json.mkObj [
    ("nodes", Json.arr (e.nodes.map (fun t => Json.str t.name)).toArray),
    ("edges", Json.arr (e.edges.map edgeJson).toArray)]
  Json.mkObj [
    ("nodes", Json.arr (b.nodes.map (fun t => Json.str t.name)).toArray),
    ("edges", Json.arr (b.edges.map edgeJson).toArray),
    ("baseEdges", Json.arr (b.baseEdges.map edgeJson).toArray),
    ("missing", Json.arr (b.missing.map edgeJson).toArray),
    ("orphaned", Json.arr (b.orphaned.map (fun t => Json.str t.name)).toArray),
    ("cyclic", Json.bool b.cyclic),
    ("root", Json.str b.root.name),
    ("export", exJ ex), ("exportBase", exJ exb)]

def handleGraph (req : Json) : Json :=
  match tyList (jStrList req "nodes") with
  | none => Json.mkObj [("err", "unknown-type")]
  | some nodes =>
    match mkTypeset declared isGeneric nodes with
    | .error e => Json.mkObj [("err", buildErrJson e)]
    | .ok b => builtJson b

/-- set-level algebra: returns the *set* of types handed to the constructor -/
def handleAlgebra (req : Json) : Json :=
  let kind := jStr req "kind"
  match tyList (jStrList req "a"), tyList (jStrList req "b") with
  | some a, some b =>
    let out : Except BuildErr (List Ty) :=
      if kind == "add" then .ok (addTypes a b)
      else if kind == "sub" then .ok (subTypes a b)
      else if kind == "replace" then
        match b with
        | [old, new] => replaceTypes a old new
        | _ => .error .keyError
      else if kind == "typeplus" then
        match b with
        | [t, u] => .ok (typePlusType isGeneric .Generic t u)
        | _ => .error .keyError
      else .error .keyError
    match out with
    | .error e => Json.mkObj [("err", buildErrJson e)]
    | .ok l => Json.mkObj [("types", Json.arr (l.map (fun t => Json.str t.name)).toArray)]
  | _, _ => Json.mkObj [("err", "unknown-type")]

def handleLRU (req : Json) : Json :=
  let cap := jNat req "cap"
  let calls := jNatList req "calls"
  let keymod := jNat req "keymod"          -- key function: a ↦ a % keymod  (0 = identity)
  let key : Nat → Nat := fun a => if keymod == 0 then a else a % keymod
  let f : Nat → Nat := fun a => a * 7 + 1
  -- step by step so that the cache contents after every call are reported
  let rec go (c : LRU Nat Nat) (as : List Nat) (acc : List Json) (n : Nat) : List Json × Nat :=
    match as with
    | [] => (acc, n)
    | a :: rest =>
      let (o, c', called) := c.get key f a
      let j := Json.mkObj [
        ("ret", match o with | some v => Json.num v | none => Json.str "KeyError"),
        ("keys", Json.arr (c'.keys.map (fun (k : Nat) => Json.num (k : JsonNumber))).toArray),
        ("called", Json.bool called)]
      go c' rest (acc ++ [j]) (n + (if called then 1 else 0))
  let (steps, n) := go (LRU.empty cap) calls [] 0
  Json.mkObj [("steps", Json.arr steps.toArray), ("calls", Json.num n)]

def handleSpark (req : Json) : Json :=
  match tyList (jStrList req "nodes"), SparkTy.ofName? (jStr req "dt") with
  | some nodes, some dt =>
    match mkTypeset declared isGeneric nodes with
    | .error e => Json.mkObj [("err", buildErrJson e)]
    | .ok b =>
      Json.mkObj [("path", Json.arr ((sparkDetect b dt).map (fun t => Json.str t.name)).toArray),
                  ("contains", Json.arr (Ty.all.filter (fun t => sparkContains t dt) |>.map (fun t => Json.str t.name)).toArray)]
  | _, _ => Json.mkObj [("err", "unknown")]

def handle (line : String) : Json :=
  match Json.parse line with
  | .error e => Json.mkObj [("err", Json.str ("parse: " ++ e))]
  | .ok req =>
    let op := jStr req "op"
    let out :=
      if op == "engine" then handleEngine req
      else if op == "graph" then handleGraph req
      else if op == "algebra" then handleAlgebra req
      else if op == "lru" then handleLRU req
      else if op == "spark" then handleSpark req
      else if op == "pandas" then PdDrv.handle req
      else if op == "pylist" then PyDrv.handle req
      else if op == "numpy" then NpDrv.handle req
      else if op == "ping" then Json.mkObj [("pong", true)]
      else Json.mkObj [("err", "unknown-op")]
    match req.getObjVal? "id" with
    | .ok i => out.setObjVal! "id" i
    | _ => out

end Drv

partial def loop (hin : IO.FS.Stream) (hout : IO.FS.Stream) : IO Unit := do
  let line ← hin.getLine
  if line.isEmpty then return ()
  let t := line.trimAscii.toString
  if !t.isEmpty then
    hout.putStrLn (Drv.handle t).compress
    hout.flush
  loop hin hout

def main : IO Unit := do
  loop (← IO.getStdin) (← IO.getStdout)

import VModel.Engine
import VModel.Graph
import VModel.Generated.Relations
import VModel.Generated.Typesets
import VModel.Generated.BoolMap
import VModel.Generated.SparkTable
import VModel.Generated.PandasDtypes
import VModel.Generated.NumpyDtypes
